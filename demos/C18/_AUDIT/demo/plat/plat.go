// Package plat holds the helpers shared by the C18 audit demonstrations: it
// builds an emulation or a timing platform with N GPUs the same way
// amd/samples/runner does (without touching the global flags), and reads
// unexported pointer fields of the benchmark structs so that the final device
// buffers can be fetched with MemCopyD2H and compared between GPU sets.
package plat

import (
	"os"
	"path/filepath"
	"reflect"
	"unsafe"

	"github.com/sarchlab/akita/v4/simulation"
	"github.com/sarchlab/mgpusim/v4/amd/arch"
	"github.com/sarchlab/mgpusim/v4/amd/driver"
	"github.com/sarchlab/mgpusim/v4/amd/samples/runner/emusystem"
	"github.com/sarchlab/mgpusim/v4/amd/samples/runner/timingconfig"
)

// Platform is a simulation with its driver.
type Platform struct {
	Sim    *simulation.Simulation
	Driver *driver.Driver
}

// NewEmu builds an emulation platform with numGPUs GPUs and starts the driver.
func NewEmu(numGPUs int, a arch.Type) *Platform {
	s := simulation.MakeBuilder().WithoutMonitoring().Build()
	emusystem.MakeBuilder().
		WithSimulation(s).
		WithNumGPUs(numGPUs).
		WithArchitecture(a).
		Build()
	d := s.GetComponentByName("Driver").(*driver.Driver)
	d.Run()
	return &Platform{Sim: s, Driver: d}
}

// NewTiming builds an R9-Nano timing platform with numGPUs GPUs and starts the
// driver.
func NewTiming(numGPUs int) *Platform {
	s := simulation.MakeBuilder().WithoutMonitoring().Build()
	timingconfig.MakeBuilder().
		WithSimulation(s).
		WithNumGPUs(numGPUs).
		Build()
	d := s.GetComponentByName("Driver").(*driver.Driver)
	d.Run()
	return &Platform{Sim: s, Driver: d}
}

// Close stops the driver and the simulation and deletes the data-recorder file
// that every akita simulation creates in the current directory.
func (p *Platform) Close() {
	p.Driver.Terminate()
	p.Sim.Terminate()
	RemoveRecorderFiles("akita_sim_" + p.Sim.ID() + "*")
}

// RemoveRecorderFiles deletes the akita data-recorder files matching pattern in
// the current directory (used with "akita_sim_*" after a child process that
// died before it could clean up).
func RemoveRecorderFiles(pattern string) {
	files, _ := filepath.Glob(pattern)
	for _, f := range files {
		os.Remove(f)
	}
}

// PtrField returns the driver.Ptr stored in the (possibly unexported) field
// name of the struct that obj points to.
func PtrField(obj interface{}, name string) driver.Ptr {
	f := reflect.ValueOf(obj).Elem().FieldByName(name)
	if !f.IsValid() {
		panic("no field " + name)
	}
	return driver.Ptr(f.Uint())
}

// ContextField returns the *driver.Context stored in the (possibly unexported)
// field name of the struct that obj points to.
func ContextField(obj interface{}, name string) *driver.Context {
	f := reflect.ValueOf(obj).Elem().FieldByName(name)
	if !f.IsValid() {
		panic("no field " + name)
	}
	return (*driver.Context)(unsafe.Pointer(f.Pointer()))
}

// GPUSet returns {1, ..., n}.
func GPUSet(n int) []int {
	s := make([]int, n)
	for i := range s {
		s[i] = i + 1
	}
	return s
}
