// Run (from the worktree root):
//
//	export PATH=/opt/veriftools/go1.26.8/bin:$PATH GOTOOLCHAIN=local GOFLAGS=-mod=mod GOPROXY=off GOSUMDB=off
//	go test ./AUDIT/demo/mm_uneven_rows/ -count=1 -v
//
// GPUMatrixMultiplier.launchKernel gives every GPU Height/4/numGPUs rows of
// work-items (integer division) at row offset gpu*(Height/4/numGPUs), with
// 8x8 work-groups. When Height/4 is not a multiple of the number of GPUs the
// last rows of C are never computed, and when the per-GPU share is not a
// multiple of 8 rows the tiled kernel runs in partial work-groups and produces
// other values than on one GPU. The benchmark's own Verify cannot see either:
// its inner loop is "for j := 0; i < Width; i++", so only row 0 of C is ever
// checked (and -gpus=1,2,3 / 1,2,3,4 "pass").
//
// The test multiplies the same two matrices with the exported
// GPUMatrixMultiplier on GPU 1 and on GPUs 1..N of an emulation platform and
// compares the two products bit by bit (every element is computed by the same
// instruction sequence whichever GPU runs its work-group).
package mm

import (
	"math"
	"testing"

	"github.com/sarchlab/mgpusim/v4/AUDIT/demo/plat"
	"github.com/sarchlab/mgpusim/v4/amd/arch"
	mmb "github.com/sarchlab/mgpusim/v4/amd/benchmarks/amdappsdk/matrixmultiplication"
)

func multiply(width, height, inner uint32, numGPUs int) []float32 {
	p := plat.NewEmu(numGPUs, arch.GCN3)
	defer p.Close()

	a := mmb.NewMatrix(inner, height)
	b := mmb.NewMatrix(width, inner)
	for i := range a.Data {
		a.Data[i] = float32(i%13) * 0.25
	}
	for i := range b.Data {
		b.Data[i] = float32(i%7) - 3
	}

	ctx := p.Driver.Init()
	p.Driver.SelectGPU(ctx, 1)
	m := mmb.NewGPUMatrixMultiplier(p.Driver, ctx)
	m.Arch = arch.GCN3
	m.SelectGPU(plat.GPUSet(numGPUs))
	return m.Multiply(a, b).Data
}

func compare(t *testing.T, width, height, inner uint32, numGPUs int, control bool) {
	ref := multiply(width, height, inner, 1)
	got := multiply(width, height, inner, numGPUs)
	bad, first := 0, -1
	for i := range ref {
		if math.Float32bits(ref[i]) != math.Float32bits(got[i]) {
			bad++
			if first < 0 {
				first = i
			}
		}
	}
	if bad == 0 {
		return
	}
	if control {
		t.Errorf("control failed: %d elements differ", bad)
		return
	}
	t.Errorf("C18: C (%d wide, %d tall) must be the same on %d GPUs as on 1 "+
		"GPU, but %d of %d elements differ, starting at row %d: 1 GPU -> %v, "+
		"%d GPUs -> %v. %d/4 = %d rows of work-items are split as %d per GPU "+
		"(work-group height 8)", width, height, numGPUs, bad, len(ref),
		first/int(width), ref[first], numGPUs, got[first], height, height/4,
		int(height)/4/numGPUs)
}

func TestMMControl128RowsFourGPUs(t *testing.T) { compare(t, 64, 128, 64, 4, true) }
func TestMMFourGPUs64Rows(t *testing.T)         { compare(t, 64, 64, 64, 4, false) }
func TestMMThreeGPUs64Rows(t *testing.T)        { compare(t, 64, 64, 64, 3, false) }
