// Run (from the worktree root):
//
//	export PATH=/opt/veriftools/go1.26.8/bin:$PATH GOTOOLCHAIN=local GOFLAGS=-mod=mod GOPROXY=off GOSUMDB=off
//	go test ./AUDIT/demo/runner_gpu_count_from_last_id/ -count=1 -v
//
// Runner.buildEmuPlatform / buildTimingPlatform build GPUIDs[len(GPUIDs)-1]
// GPUs, i.e. they take the LAST id of -gpus / -unified-gpus for the largest
// one. A GPU set that is not written in ascending order ("-gpus=2,1") gets a
// platform that lacks some of the requested GPUs; the benchmark then panics in
// Driver.SelectGPU ("GPU 2 is not available") or, for -unified-gpus, in
// CreateUnifiedGPU (index out of range) instead of producing the data of the
// set {1,2}.
package runnercount

import (
	"flag"
	"os"
	"path/filepath"
	"testing"

	"github.com/sarchlab/mgpusim/v4/amd/samples/runner"
)

func TestPlatformHasEveryRequestedGPU(t *testing.T) {
	if err := flag.Set("gpus", "2,1"); err != nil {
		t.Fatal(err)
	}
	if err := flag.Set("disable-rtm", "true"); err != nil {
		t.Fatal(err)
	}

	r := new(runner.Runner).Init()
	defer func() { // the simulation's data-recorder file
		files, _ := filepath.Glob("akita_sim_*")
		for _, f := range files {
			os.Remove(f)
		}
	}()

	highest := 0
	for _, id := range r.GPUIDs {
		if id > highest {
			highest = id
		}
	}
	if got := r.Driver().GetNumGPUs(); got < highest {
		t.Errorf("C18: the GPU set %v is the same set as {1,2} and must give "+
			"the same results, but the platform built for it has only %d "+
			"GPU(s): GPU %d does not exist and the benchmark cannot run",
			r.GPUIDs, got, highest)
	}
}
