// Run (from the worktree root):
//
//	export PATH=/opt/veriftools/go1.26.8/bin:$PATH GOTOOLCHAIN=local GOFLAGS=-mod=mod GOPROXY=off GOSUMDB=off
//	go test ./AUDIT/demo/uneven_split_others/ -count=1 -v
//
// ReLU, AES and KMeans split their work-items with "total / numGPUs" and give
// GPU i the offset "i * (total / numGPUs)": the remainder is never computed.
// Each test runs the unmodified benchmark in emulation on GPU 1 and on GPUs
// 1..N and compares the final device buffer read back with MemCopyD2H.
package uneven_split_others

import (
	"fmt"
	"testing"

	"github.com/sarchlab/mgpusim/v4/AUDIT/demo/plat"
	"github.com/sarchlab/mgpusim/v4/amd/arch"
	"github.com/sarchlab/mgpusim/v4/amd/benchmarks/dnn/layer_benchmarks/relu"
	"github.com/sarchlab/mgpusim/v4/amd/benchmarks/heteromark/aes"
	"github.com/sarchlab/mgpusim/v4/amd/benchmarks/heteromark/kmeans"
)

func firstDiff(a, b []byte) (int, int) {
	n, first := 0, -1
	for i := range a {
		if a[i] != b[i] {
			if first < 0 {
				first = i
			}
			n++
		}
	}
	return n, first
}

func runReLU(length, numGPUs int) []byte {
	p := plat.NewEmu(numGPUs, arch.GCN3)
	defer p.Close()
	b := relu.NewBenchmark(p.Driver)
	b.Length = length
	b.Arch = arch.GCN3
	b.SelectGPU(plat.GPUSet(numGPUs))
	b.Run()
	out := make([]byte, 4*length)
	p.Driver.MemCopyD2H(plat.ContextField(b, "context"), out,
		plat.PtrField(b, "gOutputData"))
	return out
}

func TestReLUDivisibleControl(t *testing.T) {
	if n, _ := firstDiff(runReLU(5000, 1), runReLU(5000, 2)); n != 0 {
		t.Errorf("control failed: %d bytes differ", n)
	}
}

func TestReLUTwoGPUsOddLength(t *testing.T) {
	ref, got := runReLU(5001, 1), runReLU(5001, 2)
	if n, first := firstDiff(ref, got); n != 0 {
		t.Errorf("C18: ReLU(length=5001) must give the same output on 2 GPUs "+
			"as on 1 GPU, but %d bytes differ, first in element %d "+
			"(1 GPU: % x, 2 GPUs: % x): the last length%%numGPUs elements "+
			"are assigned to no GPU", n, first/4,
			ref[first/4*4:first/4*4+4], got[first/4*4:first/4*4+4])
	}
}

// runAES returns "" when the ciphertext read back from the device equals the
// crypto/aes reference (the benchmark's own Verify), or the mismatch message.
func runAES(length, numGPUs int) (failure string) {
	p := plat.NewEmu(numGPUs, arch.GCN3)
	defer p.Close()
	b := aes.NewBenchmark(p.Driver)
	b.Length = length
	b.Arch = arch.GCN3
	b.SelectGPU(plat.GPUSet(numGPUs))
	b.Run()
	defer func() {
		if r := recover(); r != nil {
			failure = fmt.Sprint(r)
		}
	}()
	b.Verify()
	return ""
}

func TestAESControls(t *testing.T) {
	if f := runAES(6144, 4); f != "" { // 384 blocks = 4 * 96
		t.Errorf("control failed: %s", f)
	}
	if f := runAES(6160, 1); f != "" { // 385 blocks on one GPU
		t.Errorf("control failed: %s", f)
	}
}

func TestAESFourGPUsUnevenBlocks(t *testing.T) {
	// 6160 bytes = 385 16-byte blocks = 4 * 96 + 1
	if f := runAES(6160, 4); f != "" {
		t.Errorf("C18: AES(length=6160) encrypts all 385 blocks on 1 GPU, but "+
			"on 4 GPUs the device buffer differs from the reference: %s "+
			"(each GPU gets 385/4 = 96 blocks, block 384 is left as "+
			"plaintext)", f)
	}
}

// runKMeans returns the number of elements of the transposed feature matrix
// (kernel kmeans_swap, the first multi-GPU kernel of the benchmark) that differ
// from the feature matrix, both read back from the device.
func runKMeans(points, numGPUs int) (bad int, firstPoint int) {
	const features = 8
	p := plat.NewEmu(numGPUs, arch.GCN3)
	defer p.Close()
	b := kmeans.NewBenchmark(p.Driver)
	b.NumPoints = points
	b.NumClusters = 5
	b.NumFeatures = features
	b.MaxIter = 1
	b.Arch = arch.GCN3
	b.SelectGPU(plat.GPUSet(numGPUs))
	b.Run()

	ctx := plat.ContextField(b, "context")
	f := make([]float32, points*features)
	s := make([]float32, points*features)
	p.Driver.MemCopyD2H(ctx, f, plat.PtrField(b, "dFeatures"))
	p.Driver.MemCopyD2H(ctx, s, plat.PtrField(b, "dFeaturesSwap"))
	firstPoint = -1
	for i := 0; i < points; i++ {
		for j := 0; j < features; j++ {
			if s[j*points+i] != f[i*features+j] {
				bad++
				if firstPoint < 0 {
					firstPoint = i
				}
			}
		}
	}
	return bad, firstPoint
}

func TestKMeansControls(t *testing.T) {
	if bad, _ := runKMeans(1000, 2); bad != 0 {
		t.Errorf("control failed: %d", bad)
	}
	if bad, _ := runKMeans(1001, 1); bad != 0 {
		t.Errorf("control failed: %d", bad)
	}
}

func TestKMeansTwoGPUsOddPoints(t *testing.T) {
	if bad, first := runKMeans(1001, 2); bad != 0 {
		t.Errorf("C18: KMeans(points=1001) transposes every point on 1 GPU, "+
			"but on 2 GPUs %d elements of the transposed matrix are wrong, "+
			"first for point %d: each GPU gets 1001/2 = 500 points, point "+
			"1000 is given to no GPU (the same split is used by the "+
			"membership kernel)", bad, first)
	}
}
