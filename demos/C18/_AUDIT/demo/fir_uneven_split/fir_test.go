// Run (from the worktree root):
//
//	export PATH=/opt/veriftools/go1.26.8/bin:$PATH GOTOOLCHAIN=local GOFLAGS=-mod=mod GOPROXY=off GOSUMDB=off
//	go test ./AUDIT/demo/fir_uneven_split/ -run TestFIR -count=1 -v
package fir_uneven_split

import (
	"math"
	"testing"

	"github.com/sarchlab/mgpusim/v4/AUDIT/demo/plat"
	"github.com/sarchlab/mgpusim/v4/amd/arch"
	"github.com/sarchlab/mgpusim/v4/amd/benchmarks/heteromark/fir"
)

// runFIR runs the FIR benchmark on GPUs 1..numGPUs of an emulation platform
// and returns the final output buffer, fetched with MemCopyD2H.
func runFIR(length, numGPUs int) []float32 {
	p := plat.NewEmu(numGPUs, arch.GCN3)
	defer p.Close()

	b := fir.NewBenchmark(p.Driver)
	b.Length = length
	b.Arch = arch.GCN3
	b.SelectGPU(plat.GPUSet(numGPUs))
	b.Run()

	out := make([]float32, length)
	p.Driver.MemCopyD2H(plat.ContextField(b, "context"), out,
		plat.PtrField(b, "gOutputData"))
	return out
}

func compare(t *testing.T, length, numGPUs int) {
	ref := runFIR(length, 1)
	got := runFIR(length, numGPUs)

	bad, first := 0, -1
	for i := range ref {
		if math.Float32bits(ref[i]) != math.Float32bits(got[i]) {
			if first < 0 {
				first = i
			}
			bad++
		}
	}
	if bad != 0 {
		t.Errorf("C18: FIR(length=%d) must produce the same output on %d GPUs "+
			"as on 1 GPU (every output element is computed by the same "+
			"instruction sequence), but %d elements differ; first at %d: "+
			"1 GPU -> %v, %d GPUs -> %v (element never computed: the per-GPU "+
			"grid is length/numGPUs and the offsets are gpu*length/numGPUs)",
			length, numGPUs, bad, first, ref[first], numGPUs, got[first])
	}
}

// Control: divisible length gives identical data.
func TestFIRDivisibleLengthControl(t *testing.T) { compare(t, 4096, 4) }

// length % numGPUs != 0: the tail (2 GPUs) or holes in the middle (4 GPUs).
func TestFIRTwoGPUsOddLength(t *testing.T)   { compare(t, 4097, 2) }
func TestFIRFourGPUsLength4098(t *testing.T) { compare(t, 4098, 4) }
