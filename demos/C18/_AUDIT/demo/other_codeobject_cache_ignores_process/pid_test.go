// Run (from the worktree root):
//
//	export PATH=/opt/veriftools/go1.26.8/bin:$PATH GOTOOLCHAIN=local GOFLAGS=-mod=mod GOPROXY=off GOSUMDB=off
//	go test ./AUDIT/demo/other_codeobject_cache_ignores_process/ -count=1 -v
//
// Found while auditing C18, strictly speaking outside it (it is about
// processes, not about GPUs). Driver.codeObjGPUAddrs maps a code object to the
// VIRTUAL address of its device copy, but virtual addresses are per process
// (every Driver.Init() gets a new PID and an address space that starts at
// 0x1000). A second process that launches the same *insts.KernelCodeObject
// (package-level code objects such as mccl.coPush / coReduce are shared by
// every user in the program) gets the first process's virtual address and no
// copy: in its own address space that address is unmapped or holds something
// else (here: its kernel-argument buffer).
package pidcache

import (
	"os"
	"testing"

	"github.com/sarchlab/akita/v4/mem/vm"
	"github.com/sarchlab/akita/v4/sim"
	"github.com/sarchlab/akita/v4/sim/directconnection"
	"github.com/sarchlab/mgpusim/v4/amd/driver"
	"github.com/sarchlab/mgpusim/v4/amd/insts"
	"github.com/sarchlab/mgpusim/v4/amd/protocol"
)

type fakeCP struct {
	*sim.TickingComponent
	port     sim.Port
	launches []*protocol.LaunchKernelReq
	copies   []*protocol.MemCopyH2DReq
	toSend   []sim.Msg
}

func (f *fakeCP) Tick() bool {
	progress := false
	for len(f.toSend) > 0 && f.port.Send(f.toSend[0]) == nil {
		f.toSend = f.toSend[1:]
		progress = true
	}
	if m := f.port.RetrieveIncoming(); m != nil {
		progress = true
		switch req := m.(type) {
		case *protocol.MemCopyH2DReq:
			f.copies = append(f.copies, req)
			f.toSend = append(f.toSend, sim.GeneralRspBuilder{}.
				WithSrc(f.port.AsRemote()).WithDst(req.Src).
				WithOriginalReq(req).Build())
		case *protocol.FlushReq:
			f.toSend = append(f.toSend, sim.GeneralRspBuilder{}.
				WithSrc(f.port.AsRemote()).WithDst(req.Src).
				WithOriginalReq(req).Build())
		case *protocol.LaunchKernelReq:
			f.launches = append(f.launches, req)
			f.toSend = append(f.toSend,
				protocol.NewLaunchKernelRsp(f.port.AsRemote(), req.Src, req.ID))
		}
	}
	return progress || len(f.toSend) > 0
}

type kernArgs struct {
	Out, In driver.Ptr
}

func TestSecondProcessGetsItsOwnCodeCopy(t *testing.T) {
	hsaco, err := os.ReadFile(
		"../../../amd/benchmarks/dnn/layer_benchmarks/relu/kernels.hsaco")
	if err != nil {
		t.Fatal(err)
	}
	co := insts.LoadKernelCodeObjectFromBytes(hsaco, "ReLUForward")

	engine := sim.NewSerialEngine()
	pageTable := vm.NewPageTable(12)
	d := driver.MakeBuilder().WithEngine(engine).WithPageTable(pageTable).
		WithLog2PageSize(12).Build("Driver")
	gpu := &fakeCP{}
	gpu.TickingComponent = sim.NewTickingComponent("GPU", engine, 1*sim.GHz, gpu)
	gpu.port = sim.NewPort(gpu, 4096, 4096, "GPU.ToDriver")
	conn := directconnection.MakeBuilder().WithEngine(engine).
		WithFreq(1 * sim.GHz).Build("Conn")
	conn.PlugIn(d.GetPortByName("GPU"))
	conn.PlugIn(gpu.port)
	d.RegisterGPU(gpu.port, driver.DeviceProperties{CUCount: 4, DRAMSize: 1 << 30})
	d.Run()
	defer d.Terminate()

	for i := 0; i < 2; i++ {
		ctx := d.Init() // a new process
		d.LaunchKernel(ctx, co, [3]uint32{64, 1, 1}, [3]uint16{64, 1, 1},
			&kernArgs{})
	}

	if len(gpu.launches) != 2 {
		t.Fatalf("%d launches", len(gpu.launches))
	}
	for i, l := range gpu.launches {
		page, found := pageTable.Find(l.PID, l.Packet.KernelObject)
		if !found {
			t.Errorf("process %d launches the kernel with KernelObject 0x%x, "+
				"which is not mapped in its address space",
				l.PID, l.Packet.KernelObject)
			continue
		}
		pAddr := page.PAddr + l.Packet.KernelObject - page.VAddr
		var written []byte
		for _, c := range gpu.copies {
			if c.DstAddress == pAddr {
				written = c.SrcBuffer
			}
		}
		n := 16
		if len(written) < n || string(written[:n]) != string(co.Data[:n]) {
			t.Errorf("launch %d (process %d): the kernel must run the code of "+
				"the code object, but KernelObject 0x%x of this process maps to "+
				"physical 0x%x, where the driver copied %d bytes starting with "+
				"% x instead of the code % x (it is another buffer of this "+
				"process; the address was cached for process %d)",
				i+1, l.PID, l.Packet.KernelObject, pAddr, len(written),
				head(written, n), co.Data[:n], gpu.launches[0].PID)
		}
	}
}

func head(b []byte, n int) []byte {
	if len(b) < n {
		return b
	}
	return b[:n]
}
