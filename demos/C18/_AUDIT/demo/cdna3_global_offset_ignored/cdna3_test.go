// Run (from the worktree root):
//
//	export PATH=/opt/veriftools/go1.26.8/bin:$PATH GOTOOLCHAIN=local GOFLAGS=-mod=mod GOPROXY=off GOSUMDB=off
//	go test ./AUDIT/demo/cdna3_global_offset_ignored/ -count=1 -v
//
// For -arch=cdna3 the benchmarks split the work over the GPUs exactly as for
// GCN3: GPU i gets a grid of total/numGPUs work-items and the start of its
// slice only as the HiddenGlobalOffsetX kernel argument (offset 80 of the
// CDNA3KernelArgs). The gfx942 kernels never read that argument (FIR loads
// kernarg +0x00..0x20 and +0x34 only and computes its index as
// workgroup_id * group_size + lane), so every GPU processes the FIRST slice and
// the rest of the output is never written - also when the length divides
// evenly. The GCN3 kernels of the same benchmarks honour the offset.
package cdna3

import (
	"math"
	"testing"

	"github.com/sarchlab/mgpusim/v4/AUDIT/demo/plat"
	"github.com/sarchlab/mgpusim/v4/amd/arch"
	"github.com/sarchlab/mgpusim/v4/amd/benchmarks/heteromark/fir"
)

func runFIR(a arch.Type, length, numGPUs int) []float32 {
	p := plat.NewEmu(numGPUs, a)
	defer p.Close()
	b := fir.NewBenchmark(p.Driver)
	b.Length = length
	b.Arch = a
	b.SelectGPU(plat.GPUSet(numGPUs))
	b.Run()
	out := make([]float32, length)
	p.Driver.MemCopyD2H(plat.ContextField(b, "context"), out,
		plat.PtrField(b, "gOutputData"))
	return out
}

func diff(a, b []float32) (bad, first int) {
	first = -1
	for i := range a {
		if math.Float32bits(a[i]) != math.Float32bits(b[i]) {
			bad++
			if first < 0 {
				first = i
			}
		}
	}
	return
}

func TestGCN3Control(t *testing.T) {
	if bad, _ := diff(runFIR(arch.GCN3, 8192, 1), runFIR(arch.GCN3, 8192, 2)); bad != 0 {
		t.Errorf("control failed: %d", bad)
	}
}

func TestCDNA3FIRTwoGPUs(t *testing.T) {
	ref, got := runFIR(arch.CDNA3, 8192, 1), runFIR(arch.CDNA3, 8192, 2)
	if bad, first := diff(ref, got); bad != 0 {
		t.Errorf("C18: FIR(length=8192, arch=cdna3) must give the same output "+
			"on 2 GPUs as on 1 GPU, but %d elements differ, first at %d: "+
			"1 GPU -> %v, 2 GPUs -> %v (GPU 2 recomputed elements 0..4095)",
			bad, first, ref[first], got[first])
	}
}
