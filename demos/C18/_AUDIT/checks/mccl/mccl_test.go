// A check (expected to PASS on the unmodified source), not a demonstration.
// Run (from the worktree root):
//
//	export PATH=/opt/veriftools/go1.26.8/bin:$PATH GOTOOLCHAIN=local GOFLAGS=-mod=mod GOPROXY=off GOSUMDB=off
//	go test ./AUDIT/checks/mccl/ -count=1 -v
//
// AllReduceRing / BroadcastRing on 2, 3 and 4 GPUs of the emulation platform;
// every element of every GPU's buffer is checked (the repository's mccl_test
// only looks at element i of GPU i). The same all-reduce on the timing platform
// gives wrong data, see demo/timing_remote_write_stale_l1.
package mcclcheck

import (
	"testing"

	"github.com/sarchlab/mgpusim/v4/AUDIT/demo/plat"
	"github.com/sarchlab/mgpusim/v4/amd/arch"
	"github.com/sarchlab/mgpusim/v4/amd/benchmarks/mccl"
	"github.com/sarchlab/mgpusim/v4/amd/driver"
)

// perGPUContexts returns one context per GPU (same process), each with its GPU
// selected, the way the DNN trainers use the library. With a single shared
// context (mccl.CommInitAll) the library creates all its queues on whichever
// GPU the context has currently selected, see findings.md.
func perGPUContexts(d *driver.Driver, ctx *driver.Context, n int) []*driver.Context {
	ctxs := make([]*driver.Context, n)
	for i := range ctxs {
		ctxs[i] = d.InitWithExistingPID(ctx)
		d.SelectGPU(ctxs[i], i+1)
	}
	return ctxs
}

func allReduce(t *testing.T, p *plat.Platform, n, dataSize, bufSize int) {
	d := p.Driver
	ctx := d.Init()
	datas := make([]driver.Ptr, n)
	bufs := make([]driver.Ptr, n)
	sum := make([]float32, dataSize)
	for i := 0; i < n; i++ {
		h := make([]float32, dataSize)
		for j := range h {
			h[j] = float32((i+1)*(j%17)) * 0.5
			sum[j] += h[j]
		}
		d.SelectGPU(ctx, i+1)
		datas[i] = d.AllocateMemory(ctx, uint64(dataSize*4))
		d.MemCopyH2D(ctx, datas[i], h)
		bufs[i] = d.AllocateMemory(ctx, uint64(bufSize*4))
	}
	comms := mccl.CommInitAllMultipleContexts(n, d, perGPUContexts(d, ctx, n),
		plat.GPUSet(n))
	mccl.AllReduceRing(d, comms, datas, dataSize, bufs, bufSize)
	for i := 0; i < n; i++ {
		h := make([]float32, dataSize)
		d.MemCopyD2H(ctx, h, datas[i])
		bad := 0
		for j := range h {
			want := sum[j] / float32(n)
			if diff := h[j] - want; diff > 1e-3 || diff < -1e-3 {
				if bad == 0 {
					t.Errorf("allreduce n=%d size=%d buf=%d: GPU %d element %d = %v, want %v",
						n, dataSize, bufSize, i+1, j, h[j], want)
				}
				bad++
			}
		}
	}
}

func broadcast(t *testing.T, p *plat.Platform, n, dataSize, root int) {
	d := p.Driver
	ctx := d.Init()
	datas := make([]driver.Ptr, n)
	for i := 0; i < n; i++ {
		d.SelectGPU(ctx, i+1)
		datas[i] = d.AllocateMemory(ctx, uint64(dataSize*4))
	}
	h := make([]float32, dataSize)
	for j := range h {
		h[j] = float32(j) + 0.25
	}
	d.MemCopyH2D(ctx, datas[root-1], h)
	comms := mccl.CommInitAllMultipleContexts(n, d, perGPUContexts(d, ctx, n),
		plat.GPUSet(n))
	mccl.BroadcastRing(d, comms, root, datas, dataSize)
	for i := 0; i < n; i++ {
		g := make([]float32, dataSize)
		d.MemCopyD2H(ctx, g, datas[i])
		for j := range g {
			if g[j] != h[j] {
				t.Errorf("broadcast n=%d size=%d root=%d: GPU %d element %d = %v, want %v",
					n, dataSize, root, i+1, j, g[j], h[j])
				break
			}
		}
	}
}

// Every case gets its own platform (and therefore its own process id): the
// driver caches the device address of a code object per code object only, so
// a second process on the same driver that uses the same (package-level) mccl
// kernels would be given the first process's address, see findings.md.
func onEmu(n int, f func(p *plat.Platform)) {
	p := plat.NewEmu(n, arch.GCN3)
	defer p.Close()
	f(p)
}

func TestMCCLEmu(t *testing.T) {
	for n := 2; n <= 4; n++ {
		n := n
		onEmu(n, func(p *plat.Platform) { allReduce(t, p, n, 1029, 256) })
		onEmu(n, func(p *plat.Platform) { allReduce(t, p, n, 1029, 1029) })
		onEmu(n, func(p *plat.Platform) { allReduce(t, p, n, 7, 64) })
		onEmu(n, func(p *plat.Platform) { broadcast(t, p, n, 5000, 1) })
		onEmu(n, func(p *plat.Platform) { broadcast(t, p, n, 5000, n) })
	}
}
