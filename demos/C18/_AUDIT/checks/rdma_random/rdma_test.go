// A check (expected to PASS on the unmodified source), not a demonstration.
// Run (from the worktree root):
//
//	export PATH=/opt/veriftools/go1.26.8/bin:$PATH GOTOOLCHAIN=local GOFLAGS=-mod=mod GOPROXY=off GOSUMDB=off
//	go test ./AUDIT/checks/rdma_random/ -count=1 -v
//
// Two real rdma.Comp engines are connected back to back. Scripted L1 agents
// issue random reads/writes to the other GPU's address range, scripted L2
// agents answer them after random delays (so replies are re-ordered), and a
// scripted CP drains / restarts both engines at random times. Checked:
//   - every request reaches the owning GPU's L2 exactly once with the same
//     address / size / data / dirty mask;
//   - every request is answered to its originator exactly once, with the
//     payload the L2 produced;
//   - a DrainRsp is produced only when the drained engine has no forwarded
//     request (in either direction) awaiting its reply.
package rdmarandom

import (
	"bytes"
	"fmt"
	"math/rand"
	"testing"

	"github.com/sarchlab/akita/v4/mem/mem"
	"github.com/sarchlab/akita/v4/sim"
	"github.com/sarchlab/akita/v4/sim/directconnection"
	"github.com/sarchlab/mgpusim/v4/amd/timing/rdma"
)

const bank = 1 << 20

type l2Pending struct {
	due sim.VTimeInSec
	rsp sim.Msg
}

type world struct {
	t       *testing.T
	rng     *rand.Rand
	sentReq map[string]mem.AccessReq // by original request ID
	// what the L2 saw: key = payload signature -> count
	l2Seen map[string]int
	l2Data map[string][]byte // original signature -> data returned by L2
	answer map[string]int    // original ID -> number of replies
	// in-flight accounting per engine (index 0/1): requests forwarded by the
	// engine (either direction) that have not been answered through it yet.
	inflight [2]int
	errors   []string
}

func (w *world) errf(format string, a ...interface{}) {
	w.errors = append(w.errors, fmt.Sprintf(format, a...))
}

func sig(r mem.AccessReq) string {
	switch r := r.(type) {
	case *mem.ReadReq:
		return fmt.Sprintf("R %x %d", r.Address, r.AccessByteSize)
	case *mem.WriteReq:
		return fmt.Sprintf("W %x %x %v", r.Address, r.Data, r.DirtyMask)
	}
	panic("type")
}

type l1Agent struct {
	*sim.TickingComponent
	w       *world
	id      int
	port    sim.Port
	rdmaIn  sim.RemotePort
	toIssue int
	serial  int
	stall   sim.Msg
}

func (a *l1Agent) Tick() bool {
	progress := false
	for {
		m := a.port.RetrieveIncoming()
		if m == nil {
			break
		}
		progress = true
		rsp := m.(mem.AccessRsp)
		orig, ok := a.w.sentReq[rsp.GetRspTo()]
		if !ok {
			a.w.errf("L1[%d] got a reply to unknown request %s", a.id, rsp.GetRspTo())
			continue
		}
		a.w.answer[rsp.GetRspTo()]++
		a.w.inflight[a.id]--
		a.w.inflight[1-a.id]--
		switch o := orig.(type) {
		case *mem.ReadReq:
			d, isData := rsp.(*mem.DataReadyRsp)
			if !isData {
				a.w.errf("read answered with %T", rsp)
			} else if !bytes.Equal(d.Data, a.w.l2Data[sig(o)]) {
				a.w.errf("read %s: payload changed on the way back", sig(o))
			}
		case *mem.WriteReq:
			if _, isDone := rsp.(*mem.WriteDoneRsp); !isDone {
				a.w.errf("write answered with %T", rsp)
			}
		}
	}

	if a.stall == nil && a.toIssue > 0 && a.w.rng.Intn(3) == 0 {
		a.serial++
		// unique address per request so that the L2 side can match payloads
		addr := uint64(1-a.id)*bank + uint64(a.serial)*64
		if a.w.rng.Intn(2) == 0 {
			a.stall = mem.ReadReqBuilder{}.WithSrc(a.port.AsRemote()).
				WithDst(a.rdmaIn).WithAddress(addr).
				WithByteSize(uint64(4 << a.w.rng.Intn(4))).Build()
		} else {
			n := 4 << a.w.rng.Intn(4)
			data := make([]byte, n)
			mask := make([]bool, n)
			for i := range data {
				data[i] = byte(a.w.rng.Intn(256))
				mask[i] = a.w.rng.Intn(2) == 0
			}
			a.stall = mem.WriteReqBuilder{}.WithSrc(a.port.AsRemote()).
				WithDst(a.rdmaIn).WithAddress(addr).WithData(data).
				WithDirtyMask(mask).Build()
		}
	}
	if a.stall != nil {
		if a.port.Send(a.stall) == nil {
			r := a.stall.(mem.AccessReq)
			a.w.sentReq[r.Meta().ID] = r
			a.w.inflight[a.id]++
			a.w.inflight[1-a.id]++
			a.toIssue--
			a.stall = nil
			progress = true
		}
	}
	return progress || a.toIssue > 0 || a.stall != nil
}

type l2Agent struct {
	*sim.TickingComponent
	w     *world
	id    int
	port  sim.Port
	queue []l2Pending
}

func (a *l2Agent) Tick() bool {
	progress := false
	now := a.Engine.CurrentTime()
	for {
		m := a.port.RetrieveIncoming()
		if m == nil {
			break
		}
		progress = true
		req := m.(mem.AccessReq)
		s := sig(req)
		a.w.l2Seen[s]++
		var rsp sim.Msg
		switch r := req.(type) {
		case *mem.ReadReq:
			data := make([]byte, r.AccessByteSize)
			for i := range data {
				data[i] = byte(a.w.rng.Intn(256))
			}
			a.w.l2Data[s] = data
			rsp = mem.DataReadyRspBuilder{}.WithSrc(a.port.AsRemote()).
				WithDst(r.Src).WithRspTo(r.ID).WithData(data).Build()
		case *mem.WriteReq:
			rsp = mem.WriteDoneRspBuilder{}.WithSrc(a.port.AsRemote()).
				WithDst(r.Src).WithRspTo(r.ID).Build()
		}
		a.queue = append(a.queue, l2Pending{
			due: now + sim.VTimeInSec(1+a.w.rng.Intn(40))*1e-9, rsp: rsp})
	}
	// send any due reply (not in arrival order)
	for i := 0; i < len(a.queue); i++ {
		if a.queue[i].due <= now {
			if a.port.Send(a.queue[i].rsp) == nil {
				a.queue = append(a.queue[:i], a.queue[i+1:]...)
				i--
				progress = true
			}
		}
	}
	return progress || len(a.queue) > 0
}

type cpAgent struct {
	*sim.TickingComponent
	w        *world
	port     sim.Port
	ctrl     [2]sim.RemotePort
	state    [2]int // 0 running, 1 drain sent, 2 drained, 3 restart sent
	rounds   int
	drainAck int
}

func (a *cpAgent) Tick() bool {
	progress := false
	for {
		m := a.port.RetrieveIncoming()
		if m == nil {
			break
		}
		progress = true
		idx := 0
		if m.Meta().Src == a.ctrl[1] {
			idx = 1
		}
		switch m.(type) {
		case *rdma.DrainRsp:
			a.drainAck++
			a.state[idx] = 2
		case *rdma.RestartRsp:
			a.state[idx] = 0
		}
	}
	for idx := 0; idx < 2; idx++ {
		switch {
		case a.state[idx] == 0 && a.rounds > 0 && a.w.rng.Intn(60) == 0:
			m := rdma.DrainReqBuilder{}.WithSrc(a.port.AsRemote()).
				WithDst(a.ctrl[idx]).Build()
			if a.port.Send(m) == nil {
				a.state[idx] = 1
				a.rounds--
				progress = true
			}
		case a.state[idx] == 2 && a.w.rng.Intn(20) == 0:
			m := rdma.RestartReqBuilder{}.WithSrc(a.port.AsRemote()).
				WithDst(a.ctrl[idx]).Build()
			if a.port.Send(m) == nil {
				a.state[idx] = 3
				progress = true
			}
		}
	}
	return progress || a.rounds > 0 || a.state[0] != 0 || a.state[1] != 0
}

// flightWatcher counts, from the messages an engine actually sends on its four
// data ports, the requests it has forwarded and not yet answered, and checks
// the count when the engine sends a DrainRsp on its control port.
type flightWatcher struct {
	w        *world
	idx      int
	inflight int
	acks     int
	busyAcks int // acks sent while the OTHER direction of the system was busy
}

func (h *flightWatcher) Func(ctx sim.HookCtx) {
	if ctx.Pos != sim.HookPosPortMsgSend {
		return
	}
	switch ctx.Item.(type) {
	case mem.AccessReq:
		h.inflight++
	case mem.AccessRsp:
		h.inflight--
	case *rdma.DrainRsp:
		h.acks++
		if h.inflight != 0 {
			h.w.errf("engine %d acknowledged a drain with %d forwarded "+
				"requests still unanswered", h.idx, h.inflight)
		}
		if h.w.inflight[1-h.idx] != 0 {
			h.busyAcks++
		}
	}
}

func run(t *testing.T, seed int64) {
	w := &world{
		t: t, rng: rand.New(rand.NewSource(seed)),
		sentReq: map[string]mem.AccessReq{}, l2Seen: map[string]int{},
		l2Data: map[string][]byte{}, answer: map[string]int{},
	}
	e := sim.NewSerialEngine()
	outside := directconnection.MakeBuilder().WithEngine(e).WithFreq(1 * sim.GHz).Build("Outside")
	remote := &mem.BankedAddressPortMapper{BankSize: bank}
	var engines [2]*rdma.Comp
	var l1s [2]*l1Agent
	cp := &cpAgent{w: w, rounds: 6}
	cp.TickingComponent = sim.NewTickingComponent("CP", e, 1*sim.GHz, cp)
	cp.port = sim.NewPort(cp, 16, 16, "CP.Port")
	ctrlConn := directconnection.MakeBuilder().WithEngine(e).WithFreq(1 * sim.GHz).Build("Ctrl")
	ctrlConn.PlugIn(cp.port)

	for i := 0; i < 2; i++ {
		inside := directconnection.MakeBuilder().WithEngine(e).WithFreq(1 * sim.GHz).
			Build(fmt.Sprintf("GPU[%d].Inside", i))
		l2 := &l2Agent{w: w, id: i}
		l2.TickingComponent = sim.NewTickingComponent(fmt.Sprintf("GPU[%d].L2", i), e, 1*sim.GHz, l2)
		l2.port = sim.NewPort(l2, 4, 4, fmt.Sprintf("GPU[%d].L2.Top", i))
		local := &mem.SinglePortMapper{Port: l2.port.AsRemote()}
		eng := rdma.MakeBuilder().WithEngine(e).WithFreq(1 * sim.GHz).
			WithBufferSize(4).WithLocalModules(local).WithRemoteModules(remote).
			Build(fmt.Sprintf("GPU[%d].RDMA", i))
		engines[i] = eng
		l1 := &l1Agent{w: w, id: i, toIssue: 300}
		l1.TickingComponent = sim.NewTickingComponent(fmt.Sprintf("GPU[%d].L1", i), e, 1*sim.GHz, l1)
		l1.port = sim.NewPort(l1, 4, 4, fmt.Sprintf("GPU[%d].L1.Bottom", i))
		l1.rdmaIn = eng.RDMARequestInside.AsRemote()
		l1s[i] = l1
		inside.PlugIn(l1.port)
		inside.PlugIn(l2.port)
		inside.PlugIn(eng.RDMARequestInside)
		inside.PlugIn(eng.RDMADataInside)
		outside.PlugIn(eng.RDMARequestOutside)
		outside.PlugIn(eng.RDMADataOutside)
		ctrlConn.PlugIn(eng.CtrlPort)
		cp.ctrl[i] = eng.CtrlPort.AsRemote()
		fw := &flightWatcher{w: w, idx: i}
		for _, port := range []sim.Port{eng.CtrlPort, eng.RDMARequestInside,
			eng.RDMARequestOutside, eng.RDMADataInside, eng.RDMADataOutside} {
			port.AcceptHook(fw)
		}
	}
	remote.LowModules = []sim.RemotePort{
		engines[0].RDMADataOutside.AsRemote(),
		engines[1].RDMADataOutside.AsRemote(),
	}

	l1s[0].TickLater()
	l1s[1].TickLater()
	cp.TickLater()
	if err := e.Run(); err != nil {
		t.Fatal(err)
	}

	for id, r := range w.sentReq {
		if w.answer[id] != 1 {
			w.errf("request %s answered %d times", sig(r), w.answer[id])
		}
		if w.l2Seen[sig(r)] != 1 {
			w.errf("request %s reached the owner %d times", sig(r), w.l2Seen[sig(r)])
		}
	}
	if len(w.sentReq) != 600 {
		w.errf("only %d of 600 requests were issued", len(w.sentReq))
	}
	if cp.drainAck != 6 {
		w.errf("%d of 6 drains acknowledged", cp.drainAck)
	}
	for i, m := range w.errors {
		if i < 10 {
			t.Errorf("seed %d: %s", seed, m)
		}
	}
}

func TestRDMARandomSchedules(t *testing.T) {
	for seed := int64(1); seed <= 20; seed++ {
		run(t, seed)
	}
}
