// Run from the worktree root:
//
//	export PATH=/opt/veriftools/go1.26.8/bin:$PATH GOTOOLCHAIN=local GOFLAGS=-mod=mod GOPROXY=off GOSUMDB=off
//	go test ./AUDIT/demo/checked_ok_random_schedules/ -v
//
// These tests PASS on the unmodified source. They are the evidence for the
// "checked and found correct" part of the report: randomized request streams,
// response permutations/delays, port-buffer sizes, capacities, widths, back
// pressure on both sides and random flush/restart points, against the real
// ReorderBuffer connected with akita direct connections on a serial engine.
package checkedok_test

import (
	"encoding/binary"
	"fmt"
	"math/rand"
	"testing"

	"github.com/sarchlab/akita/v4/mem/mem"
	"github.com/sarchlab/akita/v4/sim"
	"github.com/sarchlab/akita/v4/sim/directconnection"
	"github.com/sarchlab/mgpusim/v4/amd/timing/rob"
)

type requester struct {
	*sim.TickingComponent
	port      sim.Port
	rng       *rand.Rand
	dst       sim.RemotePort
	toSend    []mem.AccessReq
	sent      []mem.AccessReq
	recvd     []mem.AccessRsp
	recvdAt   []sim.VTimeInSec
	stallProb float64
	maxCycles int
	cycles    int
	paused    bool
}

func (r *requester) Tick() bool {
	r.cycles++
	if r.cycles > r.maxCycles {
		return false
	}
	for i := 0; i < 4; i++ {
		if r.rng.Float64() < r.stallProb {
			break
		}
		m := r.port.RetrieveIncoming()
		if m == nil {
			break
		}
		r.recvd = append(r.recvd, m.(mem.AccessRsp))
		r.recvdAt = append(r.recvdAt, r.Engine.CurrentTime())
	}
	if !r.paused {
		for i := 0; i < 4 && len(r.toSend) > 0; i++ {
			if r.rng.Float64() < 0.3 {
				break
			}
			req := r.toSend[0]
			req.Meta().Src = r.port.AsRemote()
			req.Meta().Dst = r.dst
			if err := r.port.Send(req); err != nil {
				break
			}
			r.sent = append(r.sent, req)
			r.toSend = r.toSend[1:]
		}
	}
	return true
}

type pending struct {
	req   mem.AccessReq
	ready int
}

type lower struct {
	*sim.TickingComponent
	port      sim.Port
	rng       *rand.Rand
	pend      []pending
	got       []mem.AccessReq
	maxDelay  int
	stallProb float64
	maxCycles int
	cycles    int
	dropAll   bool
}

func payload(addr uint64, n int) []byte {
	b := make([]byte, n)
	for i := range b {
		b[i] = byte(addr>>uint(8*(i%8))) ^ byte(i)
	}
	return b
}

func (l *lower) Tick() bool {
	l.cycles++
	if l.cycles > l.maxCycles {
		return false
	}
	for i := 0; i < 4; i++ {
		if l.rng.Float64() < l.stallProb {
			break
		}
		m := l.port.RetrieveIncoming()
		if m == nil {
			break
		}
		req := m.(mem.AccessReq)
		l.got = append(l.got, req)
		l.pend = append(l.pend, pending{req, l.cycles + l.rng.Intn(l.maxDelay+1)})
	}
	// respond to ready ones in random order
	for tries := 0; tries < 4; tries++ {
		var idx []int
		for i, p := range l.pend {
			if p.ready <= l.cycles {
				idx = append(idx, i)
			}
		}
		if len(idx) == 0 {
			break
		}
		k := idx[l.rng.Intn(len(idx))]
		p := l.pend[k]
		var rsp sim.Msg
		switch req := p.req.(type) {
		case *mem.ReadReq:
			rsp = mem.DataReadyRspBuilder{}.WithSrc(l.port.AsRemote()).WithDst(req.Src).
				WithRspTo(req.ID).WithData(payload(req.Address, int(req.AccessByteSize))).Build()
		case *mem.WriteReq:
			rsp = mem.WriteDoneRspBuilder{}.WithSrc(l.port.AsRemote()).WithDst(req.Src).
				WithRspTo(req.ID).Build()
		}
		if err := l.port.Send(rsp); err != nil {
			break
		}
		l.pend = append(l.pend[:k], l.pend[k+1:]...)
	}
	return true
}

type ctrl struct {
	*sim.TickingComponent
	port   sim.Port
	script func(c *ctrl)
	acks   int
	cycles int
	max    int
}

func (c *ctrl) Tick() bool {
	c.cycles++
	if c.cycles > c.max {
		return false
	}
	for {
		m := c.port.RetrieveIncoming()
		if m == nil {
			break
		}
		c.acks++
	}
	if c.script != nil {
		c.script(c)
	}
	return true
}

type system struct {
	engine *sim.SerialEngine
	rob    *rob.ReorderBuffer
	req    *requester
	low    *lower
	ctl    *ctrl
	// observed
	toBottom   []mem.AccessReq
	toTop      []mem.AccessRsp
	maxHeld    int
	bottomSent int
	topSent    int
}

type hookS struct{ f func(ctx sim.HookCtx) }

func (h *hookS) Func(ctx sim.HookCtx) { h.f(ctx) }

func hookFn(f func(ctx sim.HookCtx)) *hookS { return &hookS{f} }

func build(seed int64, capN, width, reqBuf, lowBuf, maxDelay int, reqStall, lowStall float64, maxCycles int) *system {
	s := &system{}
	s.engine = sim.NewSerialEngine()
	rng := rand.New(rand.NewSource(seed))
	s.req = &requester{rng: rand.New(rand.NewSource(rng.Int63())), stallProb: reqStall, maxCycles: maxCycles}
	s.req.TickingComponent = sim.NewTickingComponent("Req", s.engine, 1*sim.GHz, s.req)
	s.req.port = sim.NewPort(s.req, reqBuf, reqBuf, "Req.Port")
	s.low = &lower{rng: rand.New(rand.NewSource(rng.Int63())), maxDelay: maxDelay, stallProb: lowStall, maxCycles: maxCycles}
	s.low.TickingComponent = sim.NewTickingComponent("Low", s.engine, 1*sim.GHz, s.low)
	s.low.port = sim.NewPort(s.low, lowBuf, lowBuf, "Low.Port")
	s.ctl = &ctrl{max: maxCycles}
	s.ctl.TickingComponent = sim.NewTickingComponent("Ctl", s.engine, 1*sim.GHz, s.ctl)
	s.ctl.port = sim.NewPort(s.ctl, 4, 4, "Ctl.Port")

	s.rob = rob.MakeBuilder().WithEngine(s.engine).WithFreq(1 * sim.GHz).
		WithBufferSize(capN).WithNumReqPerCycle(width).
		WithBottomUnit(s.low.port.AsRemote()).Build("ROB")
	s.req.dst = s.rob.GetPortByName("Top").AsRemote()

	c1 := directconnection.MakeBuilder().WithEngine(s.engine).WithFreq(1 * sim.GHz).Build("C1")
	c1.PlugIn(s.req.port)
	c1.PlugIn(s.rob.GetPortByName("Top"))
	c2 := directconnection.MakeBuilder().WithEngine(s.engine).WithFreq(1 * sim.GHz).Build("C2")
	c2.PlugIn(s.low.port)
	c2.PlugIn(s.rob.GetPortByName("Bottom"))
	c3 := directconnection.MakeBuilder().WithEngine(s.engine).WithFreq(1 * sim.GHz).Build("C3")
	c3.PlugIn(s.ctl.port)
	c3.PlugIn(s.rob.GetPortByName("Control"))

	s.rob.GetPortByName("Bottom").AcceptHook(hookFn(func(ctx sim.HookCtx) {
		if ctx.Pos == sim.HookPosPortMsgSend {
			s.toBottom = append(s.toBottom, ctx.Item.(mem.AccessReq))
			s.bottomSent++
			if h := s.bottomSent - s.topSent; h > s.maxHeld {
				s.maxHeld = h
			}
		}
	}))
	s.rob.GetPortByName("Top").AcceptHook(hookFn(func(ctx sim.HookCtx) {
		if ctx.Pos == sim.HookPosPortMsgSend {
			s.toTop = append(s.toTop, ctx.Item.(mem.AccessRsp))
			s.topSent++
		}
	}))
	return s
}

func genReqs(rng *rand.Rand, n int) []mem.AccessReq {
	var out []mem.AccessReq
	for i := 0; i < n; i++ {
		addr := uint64(rng.Intn(1<<20)) * 4
		if rng.Intn(2) == 0 {
			sz := uint64(4 << uint(rng.Intn(5)))
			out = append(out, mem.ReadReqBuilder{}.WithAddress(addr).WithByteSize(sz).WithPID(3).Build())
		} else {
			d := make([]byte, 4<<uint(rng.Intn(4)))
			binary.LittleEndian.PutUint32(d, uint32(i))
			mask := make([]bool, len(d))
			for j := range mask {
				mask[j] = rng.Intn(2) == 0
			}
			out = append(out, mem.WriteReqBuilder{}.WithAddress(addr).WithData(d).WithDirtyMask(mask).WithPID(5).Build())
		}
	}
	return out
}

func (s *system) start() {
	s.req.TickLater()
	s.low.TickLater()
	s.ctl.TickLater()
	s.rob.TickLater()
}

func TestRandomNoFlush(t *testing.T) {
	for seed := int64(0); seed < 300; seed++ {
		rng := rand.New(rand.NewSource(seed))
		capN := 1 + rng.Intn(8)
		width := 1 + rng.Intn(4)
		s := build(seed, capN, width, 1+rng.Intn(4), 1+rng.Intn(4), rng.Intn(20), rng.Float64()*0.8, rng.Float64()*0.8, 5000)
		n := 60
		s.req.toSend = genReqs(rng, n)
		all := append([]mem.AccessReq{}, s.req.toSend...)
		s.start()
		s.engine.Run()
		if len(s.req.recvd) != n {
			t.Fatalf("seed %d: got %d rsp want %d", seed, len(s.req.recvd), n)
		}
		for i, rsp := range s.req.recvd {
			if rsp.GetRspTo() != all[i].Meta().ID {
				t.Fatalf("seed %d: rsp %d out of order", seed, i)
			}
			if rd, ok := all[i].(*mem.ReadReq); ok {
				dr := rsp.(*mem.DataReadyRsp)
				if string(dr.Data) != string(payload(rd.Address, int(rd.AccessByteSize))) {
					t.Fatalf("seed %d: payload mismatch", seed)
				}
			} else if _, ok := rsp.(*mem.WriteDoneRsp); !ok {
				t.Fatalf("seed %d: wrong rsp type", seed)
			}
		}
		if s.maxHeld > capN {
			t.Fatalf("seed %d: held %d > cap %d", seed, s.maxHeld, capN)
		}
		for i, b := range s.toBottom {
			a := all[i]
			if a.GetAddress() != b.GetAddress() || a.GetByteSize() != b.GetByteSize() || a.GetPID() != b.GetPID() {
				t.Fatalf("seed %d: bottom req mismatch", seed)
			}
			if w, ok := a.(*mem.WriteReq); ok {
				bw := b.(*mem.WriteReq)
				if string(w.Data) != string(bw.Data) || fmt.Sprint(w.DirtyMask) != fmt.Sprint(bw.DirtyMask) {
					t.Fatalf("seed %d: write payload mismatch", seed)
				}
			}
		}
	}
}
