// Run from the worktree root:
//
//	export PATH=/opt/veriftools/go1.26.8/bin:$PATH GOTOOLCHAIN=local GOFLAGS=-mod=mod GOPROXY=off GOSUMDB=off
//	go test ./AUDIT/demo/checked_ok_random_schedules/ -v
//
// These tests PASS on the unmodified source. They are the evidence for the
// "checked and found correct" part of the report: randomized request streams,
// response permutations/delays, port-buffer sizes, capacities, widths, back
// pressure on both sides and random flush/restart points, against the real
// ReorderBuffer connected with akita direct connections on a serial engine.
package checkedok_test

import (
	"math/rand"
	"testing"

	"github.com/sarchlab/akita/v4/mem/mem"
	"github.com/sarchlab/akita/v4/sim"
)

type ev struct {
	kind string
	id   string
}

func TestRandomFlush(t *testing.T) {
	for seed := int64(0); seed < 1000; seed++ {
		rng := rand.New(rand.NewSource(seed))
		capN := 1 + rng.Intn(8)
		width := 1 + rng.Intn(4)
		s := build(seed, capN, width, 1+rng.Intn(4), 1+rng.Intn(4), rng.Intn(20), rng.Float64()*0.8, rng.Float64()*0.8, 8000)
		var log []ev
		s.rob.GetPortByName("Top").AcceptHook(hookFn(func(ctx sim.HookCtx) {
			switch ctx.Pos {
			case sim.HookPosPortMsgRecvd:
				log = append(log, ev{"recvd", ctx.Item.(sim.Msg).Meta().ID})
			case sim.HookPosPortMsgRetrieveIncoming:
				log = append(log, ev{"retr", ctx.Item.(sim.Msg).Meta().ID})
			case sim.HookPosPortMsgSend:
				log = append(log, ev{"rsp", ctx.Item.(mem.AccessRsp).GetRspTo()})
			}
		}))
		s.rob.GetPortByName("Control").AcceptHook(hookFn(func(ctx sim.HookCtx) {
			if ctx.Pos == sim.HookPosPortMsgSend {
				log = append(log, ev{"ack", ""})
			}
		}))
		reqs := genReqs(rng, 120)
		s.req.toSend = append([]mem.AccessReq{}, reqs...)
		flushAt := 5 + rng.Intn(60)
		gap := rng.Intn(40)
		state := 0
		ackCycle := 0
		s.ctl.script = func(c *ctrl) {
			switch state {
			case 0:
				if c.cycles >= flushAt {
					m := mem.ControlMsgBuilder{}.WithSrc(c.port.AsRemote()).WithDst(s.rob.GetPortByName("Control").AsRemote()).ToDiscardTransactions().Build()
					if c.port.Send(m) == nil {
						state = 1
					}
				}
			case 1:
				if c.acks == 1 {
					ackCycle = c.cycles
					state = 2
				}
			case 2:
				if c.cycles >= ackCycle+gap {
					m := mem.ControlMsgBuilder{}.WithSrc(c.port.AsRemote()).WithDst(s.rob.GetPortByName("Control").AsRemote()).ToRestart().Build()
					if c.port.Send(m) == nil {
						state = 3
					}
				}
			case 3:
				if c.acks == 2 {
					state = 4
				}
			}
		}
		s.start()
		s.engine.Run()
		if state != 4 {
			t.Fatalf("seed %d: flush protocol did not complete, state %d", seed, state)
		}
		// analyse
		acks := 0
		accepted := map[string]bool{}
		answered := map[string]int{}
		discarded := map[string]bool{}
		recvdPre := map[string]bool{}
		var later []string
		var laterRsp []string
		for _, e := range log {
			switch e.kind {
			case "ack":
				acks++
				if acks == 1 {
					for id := range accepted {
						if answered[id] == 0 {
							discarded[id] = true
						}
					}
				}
				if acks == 2 {
					for id := range recvdPre {
						if !accepted[id] {
							discarded[id] = true
						}
					}
				}
			case "recvd":
				if acks < 2 {
					recvdPre[e.id] = true
				} else {
					later = append(later, e.id)
				}
			case "retr":
				if acks == 0 {
					accepted[e.id] = true
				}
			case "rsp":
				answered[e.id]++
				if discarded[e.id] {
					t.Fatalf("seed %d: response sent for a discarded request", seed)
				}
				if answered[e.id] > 1 {
					t.Fatalf("seed %d: duplicate response", seed)
				}
				if acks >= 2 {
					laterRsp = append(laterRsp, e.id)
				} else if acks == 1 {
					t.Fatalf("seed %d: response sent while flushing", seed)
				}
			}
		}
		if len(laterRsp) != len(later) {
			t.Fatalf("seed %d: later traffic: %d reqs, %d rsps (discarded %d)", seed, len(later), len(laterRsp), len(discarded))
		}
		for i := range later {
			if later[i] != laterRsp[i] {
				t.Fatalf("seed %d: later traffic out of order at %d", seed, i)
			}
		}
	}
}
