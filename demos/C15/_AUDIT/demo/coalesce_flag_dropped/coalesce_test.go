// Run from the worktree root:
//
//	export PATH=/opt/veriftools/go1.26.8/bin:$PATH GOTOOLCHAIN=local GOFLAGS=-mod=mod GOPROXY=off GOSUMDB=off
//	go test ./AUDIT/demo/coalesce_flag_dropped/ -v
//
// Finding: ReorderBuffer.duplicateReadReq / duplicateWriteReq
// (amd/timing/rob/rob.go) rebuild the request that goes to the lower level
// from address, size, data, mask and PID only. The CanWaitForCoalesce flag
// (and the Info field) of the requester's request is dropped, so the request
// the lower level sees is not the request the requester sent. The compute
// unit sets CanWaitForCoalesce on every transaction of an instruction but the
// last (vectormemoryunit.go, scalarunit.go) precisely so that the L1 cache
// coalescer below the ROB can tell where an instruction ends
// (writearound/coalescer.go isReqLastInWave); the address translator, the
// sibling pass-through stage right below the ROB, does copy the flag.
package coalesceflag_test

import (
	"testing"

	"github.com/sarchlab/akita/v4/mem/mem"
	"github.com/sarchlab/akita/v4/mem/vm"
	"github.com/sarchlab/akita/v4/mem/vm/addresstranslator"
	"github.com/sarchlab/akita/v4/sim"
	"github.com/sarchlab/akita/v4/sim/directconnection"
	"github.com/sarchlab/mgpusim/v4/amd/timing/rob"
)

// agent is a passive component that owns one port and records what arrives.
type agent struct {
	*sim.TickingComponent
	port sim.Port
	got  []sim.Msg
	// reply, when set, answers every access request immediately.
	reply bool
}

func (a *agent) Tick() bool {
	m := a.port.RetrieveIncoming()
	if m == nil {
		return false
	}
	a.got = append(a.got, m)
	if a.reply {
		var rsp sim.Msg
		switch req := m.(type) {
		case *mem.ReadReq:
			rsp = mem.DataReadyRspBuilder{}.WithSrc(a.port.AsRemote()).WithDst(req.Src).
				WithRspTo(req.ID).WithData(make([]byte, req.AccessByteSize)).Build()
		case *mem.WriteReq:
			rsp = mem.WriteDoneRspBuilder{}.WithSrc(a.port.AsRemote()).WithDst(req.Src).
				WithRspTo(req.ID).Build()
		}
		if err := a.port.Send(rsp); err != nil {
			panic("agent cannot reply")
		}
	}
	return true
}

func newAgent(engine sim.Engine, name string, reply bool) *agent {
	a := &agent{reply: reply}
	a.TickingComponent = sim.NewTickingComponent(name, engine, 1*sim.GHz, a)
	a.port = sim.NewPort(a, 16, 16, name+".Port")
	return a
}

func connect(engine sim.Engine, name string, ports ...sim.Port) {
	c := directconnection.MakeBuilder().WithEngine(engine).WithFreq(1 * sim.GHz).Build(name)
	for _, p := range ports {
		c.PlugIn(p)
	}
}

// The four requests of one 4-transaction instruction, as the CU marks them:
// all but the last may wait for coalescing.
func instructionRequests(src, dst sim.RemotePort, write bool) []mem.AccessReq {
	var reqs []mem.AccessReq
	for i := 0; i < 4; i++ {
		if write {
			b := mem.WriteReqBuilder{}.WithSrc(src).WithDst(dst).WithPID(1).
				WithAddress(0x1000 + uint64(i)*16).WithData(make([]byte, 16)).
				WithDirtyMask(make([]bool, 16)).WithInfo("tag")
			if i != 3 {
				b = b.CanWaitForCoalesce()
			}
			reqs = append(reqs, b.Build())
		} else {
			b := mem.ReadReqBuilder{}.WithSrc(src).WithDst(dst).WithPID(1).
				WithAddress(0x1000 + uint64(i)*16).WithByteSize(16).WithInfo("tag")
			if i != 3 {
				b = b.CanWaitForCoalesce()
			}
			reqs = append(reqs, b.Build())
		}
	}
	return reqs
}

func canWait(m sim.Msg) bool {
	switch r := m.(type) {
	case *mem.ReadReq:
		return r.CanWaitForCoalesce
	case *mem.WriteReq:
		return r.CanWaitForCoalesce
	}
	panic("not an access request")
}

func TestROBKeepsCanWaitForCoalesce(t *testing.T) {
	for _, write := range []bool{false, true} {
		engine := sim.NewSerialEngine()
		top := newAgent(engine, "CU", false)
		low := newAgent(engine, "L1", true)
		r := rob.MakeBuilder().WithEngine(engine).WithFreq(1 * sim.GHz).
			WithBufferSize(8).WithNumReqPerCycle(2).
			WithBottomUnit(low.port.AsRemote()).Build("ROB")
		connect(engine, "TopConn", top.port, r.GetPortByName("Top"))
		connect(engine, "BottomConn", low.port, r.GetPortByName("Bottom"))

		reqs := instructionRequests(top.port.AsRemote(), r.GetPortByName("Top").AsRemote(), write)
		for _, q := range reqs {
			if err := top.port.Send(q); err != nil {
				t.Fatal("cannot send")
			}
		}
		engine.Run()

		if len(low.got) != 4 || len(top.got) != 4 {
			t.Fatalf("setup: lower level got %d requests, requester got %d responses", len(low.got), len(top.got))
		}
		for i, q := range reqs {
			if canWait(low.got[i]) != canWait(q) {
				t.Errorf("C15: the request the ROB sends down must be a faithful duplicate of the "+
					"accepted request; write=%v request %d of the instruction was sent with "+
					"CanWaitForCoalesce=%v but the ROB forwarded it with CanWaitForCoalesce=%v "+
					"(the L1 coalescer now takes every transaction for the last one of its instruction)",
					write, i, canWait(q), canWait(low.got[i]))
			}
		}
	}
}

// The sibling stage directly below the ROB in the shader array, akita's
// address translator, is given the same four requests and keeps the flag
// (passes). It shows what the pass-through stages of this pipeline are
// expected to do with the field.
func TestSiblingAddressTranslatorKeepsTheFlag(t *testing.T) {
	engine := sim.NewSerialEngine()
	top := newAgent(engine, "CU", false)
	low := newAgent(engine, "L1", true)
	tlb := &tlbAgent{}
	tlb.TickingComponent = sim.NewTickingComponent("TLB", engine, 1*sim.GHz, tlb)
	tlb.port = sim.NewPort(tlb, 16, 16, "TLB.Port")

	at := addresstranslator.MakeBuilder().WithEngine(engine).WithFreq(1 * sim.GHz).
		WithLog2PageSize(12).WithDeviceID(1).WithNumReqPerCycle(4).
		WithMemoryProviderMapper(&mem.SinglePortMapper{Port: low.port.AsRemote()}).
		WithTranslationProviderMapper(&mem.SinglePortMapper{Port: tlb.port.AsRemote()}).
		Build("AT")
	connect(engine, "TopConn", top.port, at.GetPortByName("Top"))
	connect(engine, "BottomConn", low.port, at.GetPortByName("Bottom"))
	connect(engine, "TLBConn", tlb.port, at.GetPortByName("Translation"))

	reqs := instructionRequests(top.port.AsRemote(), at.GetPortByName("Top").AsRemote(), false)
	for _, q := range reqs {
		if err := top.port.Send(q); err != nil {
			t.Fatal("cannot send")
		}
	}
	engine.Run()
	if len(low.got) != 4 {
		t.Fatalf("setup: lower level got %d requests", len(low.got))
	}
	for i, q := range reqs {
		if canWait(low.got[i]) != canWait(q) {
			t.Errorf("address translator changed CanWaitForCoalesce of request %d", i)
		}
	}
}

type tlbAgent struct {
	*sim.TickingComponent
	port sim.Port
}

func (a *tlbAgent) Tick() bool {
	m := a.port.RetrieveIncoming()
	if m == nil {
		return false
	}
	req := m.(*vm.TranslationReq)
	rsp := vm.TranslationRspBuilder{}.WithSrc(a.port.AsRemote()).WithDst(req.Src).
		WithRspTo(req.ID).
		WithPage(vm.Page{PID: req.PID, VAddr: req.VAddr &^ 0xfff, PAddr: 0x100000, PageSize: 4096, Valid: true, DeviceID: 1}).
		Build()
	if err := a.port.Send(rsp); err != nil {
		panic("tlb cannot reply")
	}
	return true
}
