// Run from the worktree root:
//
//	export PATH=/opt/veriftools/go1.26.8/bin:$PATH GOTOOLCHAIN=local GOFLAGS=-mod=mod GOPROXY=off GOSUMDB=off
//	go test ./AUDIT/demo/rob_not_flushed_by_cp/ -v
//
// Expected on the unmodified source:
//
//	TestCPFlushReachesEveryROB/{r9nano,mi300a}  FAIL  (the defect, structural view)
//	TestTrafficAfterGPUFlushIsServed            FAIL  (the defect, behavioural view)
//	TestBaselineInjectedRequestIsAnswered       PASS  (plumbing sanity)
//	TestControlSameScenarioWithROBsWired        PASS  (control experiment)
//
// Finding: the shader array builder exports the Control port of every reorder
// buffer (L1VROBCtrl[i], L1SROBCtrl, L1IROBCtrl in
// amd/samples/runner/timingconfig/shaderarray/builder.go populateExternalPorts)
// but neither GPU builder (timingconfig/r9nano/builder.go and
// timingconfig/mi300a/builder.go, connectCPWithAddressTranslators) plugs these
// ports into the command processor or registers them in
// CommandProcessor.AddressTranslators. The CP's flush sequence
// (amd/timing/cp/ctrlMiddleware.go) therefore discards the in-flight
// transactions of the CUs, the address translators, the caches and the TLBs,
// but never those of the ROBs that sit between the CUs and the address
// translators. ReorderBuffer.discardTransactions / restart are dead code in
// the assembled GPU.
//
// The tests build the real GPU with the real builder (1 shader array, 2 CUs),
// attach a fake driver to the CP's driver port and drive the CP through the
// driver protocol (ShootDownCommand, GPURestartReq).
package robnotflushed_test

import (
	"path/filepath"
	"testing"

	"github.com/sarchlab/akita/v4/mem/mem"
	"github.com/sarchlab/akita/v4/mem/vm"
	"github.com/sarchlab/akita/v4/mem/vm/addresstranslator"
	"github.com/sarchlab/akita/v4/mem/vm/mmu"
	"github.com/sarchlab/akita/v4/sim"
	"github.com/sarchlab/akita/v4/sim/directconnection"
	"github.com/sarchlab/akita/v4/simulation"
	"github.com/sarchlab/mgpusim/v4/amd/protocol"
	"github.com/sarchlab/mgpusim/v4/amd/samples/runner/timingconfig/mi300a"
	"github.com/sarchlab/mgpusim/v4/amd/samples/runner/timingconfig/r9nano"
	"github.com/sarchlab/mgpusim/v4/amd/timing/cp"
	"github.com/sarchlab/mgpusim/v4/amd/timing/rob"
)

type hook struct{ f func(ctx sim.HookCtx) }

func (h *hook) Func(ctx sim.HookCtx) { h.f(ctx) }

type fakeDriver struct {
	*sim.TickingComponent
	port sim.Port
	got  []sim.Msg
}

func (d *fakeDriver) Tick() bool {
	m := d.port.RetrieveIncoming()
	if m == nil {
		return false
	}
	d.got = append(d.got, m)
	return true
}

type world struct {
	sim    *simulation.Simulation
	engine sim.Engine
	gpu    *sim.Domain
	cp     *cp.CommandProcessor
	robs   []*rob.ReorderBuffer
	ats    []*addresstranslator.Comp
	drv    *fakeDriver
	mmu    *mmu.Comp
	pt     vm.PageTable
}

func buildWorld(t *testing.T) *world { return buildWorldOf(t, "r9nano") }

func buildWorldOf(t *testing.T, gpuType string) *world {
	w := &world{}
	w.sim = simulation.MakeBuilder().WithoutMonitoring().
		WithOutputFileName(filepath.Join(t.TempDir(), "rec")).Build()
	w.engine = w.sim.GetEngine()

	w.pt = vm.NewPageTable(12)
	w.mmu = mmu.MakeBuilder().WithEngine(w.engine).WithFreq(1 * sim.GHz).
		WithPageWalkingLatency(100).WithLog2PageSize(12).WithPageTable(w.pt).Build("MMU")
	w.sim.RegisterComponent(w.mmu)

	storage := mem.NewStorage(8 * mem.GB)
	rdmaMapper := new(mem.BankedAddressPortMapper)
	rdmaMapper.BankSize = 4 * mem.GB
	rdmaMapper.LowModules = append(rdmaMapper.LowModules, sim.RemotePort("CPU"))

	// The GPU exactly as the timing platform builds it
	// (amd/samples/runner/timingconfig/builder.go, createGPUBuilder/createGPU),
	// only smaller.
	if gpuType == "mi300a" {
		w.gpu = mi300a.MakeBuilder().WithSimulation(w.sim).WithMMU(w.mmu).
			WithLog2PageSize(12).WithGlobalStorage(storage).
			WithNumShaderArray(1).WithNumCUPerShaderArray(2).
			WithGPUID(1).WithMemAddrOffset(4 * mem.GB).WithRDMAAddressMapper(rdmaMapper).
			Build("GPU[1]")
	} else {
		w.gpu = r9nano.MakeBuilder().WithSimulation(w.sim).WithMMU(w.mmu).
			WithLog2PageSize(12).WithGlobalStorage(storage).
			WithNumShaderArray(1).WithNumCUPerShaderArray(2).
			WithGPUID(1).WithMemAddrOffset(4 * mem.GB).WithRDMAAddressMapper(rdmaMapper).
			Build("GPU[1]")
	}

	for _, c := range w.sim.Components() {
		switch c := c.(type) {
		case *rob.ReorderBuffer:
			w.robs = append(w.robs, c)
		case *addresstranslator.Comp:
			w.ats = append(w.ats, c)
		case *cp.CommandProcessor:
			w.cp = c
		}
	}

	w.drv = &fakeDriver{}
	w.drv.TickingComponent = sim.NewTickingComponent("Driver", w.engine, 1*sim.GHz, w.drv)
	w.drv.port = sim.NewPort(w.drv, 16, 16, "Driver.GPU")
	conn := directconnection.MakeBuilder().WithEngine(w.engine).WithFreq(1 * sim.GHz).Build("DriverConn")
	conn.PlugIn(w.drv.port)
	conn.PlugIn(w.gpu.GetPortByName("CommandProcessor"))
	// The timing platform never sets CommandProcessor.Driver (the assignment in
	// timingconfig/builder.go is commented out); the CP needs it to address
	// its completion messages, so the test supplies it.
	w.cp.Driver = w.drv.port

	return w
}

type ctrlLog struct {
	discards, restarts int
}

func watchCtrl(p sim.Port) *ctrlLog {
	l := &ctrlLog{}
	p.AcceptHook(&hook{func(ctx sim.HookCtx) {
		if ctx.Pos != sim.HookPosPortMsgRecvd {
			return
		}
		if m, ok := ctx.Item.(*mem.ControlMsg); ok {
			if m.DiscardTransations {
				l.discards++
			}
			if m.Restart {
				l.restarts++
			}
		}
	}})
	return l
}

func (w *world) flushGPU(t *testing.T) {
	before := len(w.drv.got)
	cmd := protocol.NewShootdownCommand(w.drv.port, w.cp.ToDriver, []uint64{0x1000}, 1)
	if err := w.drv.port.Send(cmd); err != nil {
		t.Fatal("cannot send shootdown")
	}
	w.engine.Run()
	if len(w.drv.got) != before+1 {
		t.Fatalf("the GPU flush did not complete: driver got %d messages", len(w.drv.got)-before)
	}
	if _, ok := w.drv.got[before].(*protocol.ShootDownCompleteRsp); !ok {
		t.Fatalf("expected ShootDownCompleteRsp, got %T", w.drv.got[before])
	}
}

func (w *world) restartGPU(t *testing.T) {
	before := len(w.drv.got)
	cmd := protocol.NewGPURestartReq(w.drv.port, w.cp.ToDriver)
	if err := w.drv.port.Send(cmd); err != nil {
		t.Fatal("cannot send restart")
	}
	w.engine.Run()
	if len(w.drv.got) != before+1 {
		t.Fatalf("the GPU restart did not complete: driver got %d messages", len(w.drv.got)-before)
	}
	if _, ok := w.drv.got[before].(*protocol.GPURestartRsp); !ok {
		t.Fatalf("expected GPURestartRsp, got %T", w.drv.got[before])
	}
}

// TestCPFlushReachesEveryROB: a GPU flush (TLB shootdown / page migration)
// discards the in-flight transactions of the CUs, the address translators and
// the caches. The reorder buffers sit between the CUs and the address
// translators, so they must be told to discard and later to restart too.
func TestCPFlushReachesEveryROB(t *testing.T) {
	for _, gpuType := range []string{"r9nano", "mi300a"} {
		t.Run(gpuType, func(t *testing.T) { cpFlushReachesEveryROB(t, gpuType) })
	}
}

func cpFlushReachesEveryROB(t *testing.T, gpuType string) {
	w := buildWorldOf(t, gpuType)
	defer w.sim.Terminate()

	robLogs := map[string]*ctrlLog{}
	for _, r := range w.robs {
		robLogs[r.Name()] = watchCtrl(r.GetPortByName("Control"))
	}
	atLogs := map[string]*ctrlLog{}
	for _, a := range w.ats {
		atLogs[a.Name()] = watchCtrl(a.GetPortByName("Control"))
	}
	if len(w.robs) != 4 || len(w.ats) != 4 {
		t.Fatalf("unexpected topology: %d ROBs, %d ATs", len(w.robs), len(w.ats))
	}

	w.flushGPU(t)
	w.restartGPU(t)

	for n, l := range atLogs {
		if l.discards != 1 || l.restarts != 1 {
			t.Fatalf("sanity: address translator %s got %d discards and %d restarts", n, l.discards, l.restarts)
		}
	}
	for _, r := range w.robs {
		l := robLogs[r.Name()]
		if l.discards != 1 || l.restarts != 1 {
			t.Errorf("C15 requires every reorder buffer to be flushed with the rest of the "+
				"memory pipeline (no response for a discarded request, later traffic served "+
				"normally); during a complete GPU flush+restart, in which every address "+
				"translator got 1 discard and 1 restart, %s got %d discard and %d restart "+
				"messages on its Control port (the port is exported by the shader array as "+
				"L1?ROBCtrl but never plugged into the command processor)",
				r.Name(), l.discards, l.restarts)
		}
	}
}

// connectMMU lets translations reach the MMU (in the full platform this path
// goes over PCIe) and maps one page of process 1 to GPU memory.
func (w *world) connectMMU() {
	conn := directconnection.MakeBuilder().WithEngine(w.engine).WithFreq(1 * sim.GHz).Build("MMUConn")
	conn.PlugIn(w.gpu.GetPortByName("Translation_00"))
	conn.PlugIn(w.mmu.GetPortByName("Top"))
	w.pt.Insert(vm.Page{
		PID: 1, VAddr: 0x1000, PAddr: 4*mem.GB + 0x1000, PageSize: 4096,
		Valid: true, DeviceID: 1,
	})
}

func (w *world) component(name string) sim.Component {
	for _, c := range w.sim.Components() {
		if c.Name() == name {
			return c
		}
	}
	panic("no component " + name)
}

// inject hands the reorder buffer a read request exactly as the connection
// from the compute unit would (the request names the CU's vector memory port
// as its source, so the response is routed to the CU, which ignores responses
// it does not expect).
func (w *world) inject(r *rob.ReorderBuffer, addr uint64) *mem.ReadReq {
	cu := w.component("GPU[1].SA[0].CU[0]")
	req := mem.ReadReqBuilder{}.
		WithSrc(cu.GetPortByName("VectorMem").AsRemote()).
		WithDst(r.GetPortByName("Top").AsRemote()).
		WithAddress(addr).WithByteSize(4).WithPID(1).Build()
	if err := r.GetPortByName("Top").Deliver(req); err != nil {
		panic("rob top port full")
	}
	return req
}

func watchResponses(r *rob.ReorderBuffer) *[]string {
	ids := &[]string{}
	r.GetPortByName("Top").AcceptHook(&hook{func(ctx sim.HookCtx) {
		if ctx.Pos == sim.HookPosPortMsgSend {
			*ids = append(*ids, ctx.Item.(mem.AccessRsp).GetRspTo())
		}
	}})
	return ids
}

// Sanity for the plumbing used below: without a flush the injected request is
// answered by the reorder buffer.
func TestBaselineInjectedRequestIsAnswered(t *testing.T) {
	w := buildWorld(t)
	defer w.sim.Terminate()
	w.connectMMU()
	r := w.component("GPU[1].SA[0].L1VROB[0]").(*rob.ReorderBuffer)
	rsps := watchResponses(r)
	r1 := w.inject(r, 0x1000)
	w.engine.Run()
	if len(*rsps) != 1 || (*rsps)[0] != r1.ID {
		t.Fatalf("baseline broken: responses %v, want [%s]", *rsps, r1.ID)
	}
}

// TestTrafficAfterGPUFlushIsServed: a request is in flight below the vector
// reorder buffer (its translation is walking the page table) when the driver
// orders a TLB shootdown. The CP flushes CUs, address translators, caches and
// TLBs, then the driver restarts the GPU. The request that was in flight is
// discarded by the address translator. A request issued after the restart
// must be answered.
func TestTrafficAfterGPUFlushIsServed(t *testing.T) {
	w := buildWorld(t)
	defer w.sim.Terminate()
	w.connectMMU()
	flushScenario(t, w)
}

// Control experiment (passes): the same scenario, but the test first does the
// wiring the GPU builder omits - it registers the ROB control ports with the
// command processor next to the address translators. Then R2 is answered and
// R1 is not, which shows that the missing wiring alone causes the failure
// above.
func TestControlSameScenarioWithROBsWired(t *testing.T) {
	w := buildWorld(t)
	defer w.sim.Terminate()
	w.connectMMU()
	internal := w.component("GPU[1].InternalConn").(*directconnection.Comp)
	for _, r := range w.robs {
		p := r.GetPortByName("Control")
		w.cp.AddressTranslators = append(w.cp.AddressTranslators, p)
		internal.PlugIn(p)
	}
	flushScenario(t, w)
}

func flushScenario(t *testing.T, w *world) {
	r := w.component("GPU[1].SA[0].L1VROB[0]").(*rob.ReorderBuffer)
	rsps := watchResponses(r)

	// As soon as the ROB forwards R1 to the address translator, the driver
	// orders the shootdown.
	flushSent := false
	r.GetPortByName("Bottom").AcceptHook(&hook{func(ctx sim.HookCtx) {
		if ctx.Pos == sim.HookPosPortMsgSend && !flushSent {
			flushSent = true
			cmd := protocol.NewShootdownCommand(w.drv.port, w.cp.ToDriver, []uint64{0x2000}, 1)
			if err := w.drv.port.Send(cmd); err != nil {
				panic("cannot send shootdown")
			}
		}
	}})

	r1 := w.inject(r, 0x1000)
	w.engine.Run()
	if !flushSent || len(w.drv.got) != 1 {
		t.Fatalf("setup: flush sent %v, driver got %d messages", flushSent, len(w.drv.got))
	}
	if _, ok := w.drv.got[0].(*protocol.ShootDownCompleteRsp); !ok {
		t.Fatalf("setup: expected ShootDownCompleteRsp, got %T", w.drv.got[0])
	}
	if len(*rsps) != 0 {
		t.Fatalf("setup: R1 was answered before the flush took effect; responses %v", *rsps)
	}

	w.restartGPU(t)

	r2 := w.inject(r, 0x1040)
	w.engine.Run()

	for _, id := range *rsps {
		if id == r1.ID {
			t.Errorf("C15: no response for a request discarded by a flush may be delivered; "+
				"%s answered R1 after the GPU flush", r.Name())
		}
	}
	answered := false
	for _, id := range *rsps {
		if id == r2.ID {
			answered = true
		}
	}
	if !answered {
		t.Errorf("C15 requires that after a flush later traffic is served normally; after a "+
			"complete GPU flush + restart, request R2 sent to %s was never answered "+
			"(responses sent by the ROB: %v). The ROB was not told to discard, so R1, whose "+
			"copy below was discarded by the address translator, blocks the head of the ROB forever.",
			r.Name(), *rsps)
	}
}
