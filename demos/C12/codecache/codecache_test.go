// Run (from the worktree root):
//
//	export PATH=/opt/veriftools/go1.26.8/bin:$PATH GOTOOLCHAIN=local GOFLAGS=-mod=mod GOPROXY=off GOSUMDB=off
//	go test ./c12demo/codecache/ -run . -count=1 -v
//
// C12: the commands of one queue take effect in order and a kernel observes
// the memory effects of the copies that precede it in its queue; other queues
// and contexts never disturb this. Both the emulator and the timing CUs fetch
// the instructions of a kernel from GPU memory at Packet.KernelObject, in the
// address space of the launching process (LaunchKernelReq.PID). So when a
// LaunchKernelReq reaches the GPU, the code object must be in memory there.
//
// Driver.EnqueueLaunchKernel caches the device address of a code object in
// codeObjGPUAddrs, keyed by the *KernelCodeObject only. The first launch
// allocates the buffer (in the first caller's process) and enqueues the code
// copy in the first caller's queue; every later launch of the same code object
// - from whatever queue, context or process - reuses the address and skips the
// copy.
package codecache_test

import (
	"bytes"
	"fmt"
	"testing"
	"time"

	"github.com/sarchlab/mgpusim/v4/amd/insts"
	"github.com/sarchlab/mgpusim/v4/amd/protocol"
)

type kernArgs struct {
	A uint64
}

func makeCodeObject(numBytes int) *insts.KernelCodeObject {
	data := make([]byte, numBytes)
	for i := range data {
		data[i] = byte(0xA0 + i%23)
	}
	return &insts.KernelCodeObject{
		KernelCodeObjectMeta: &insts.KernelCodeObjectMeta{
			KernargSegmentByteSize: 8,
		},
		Data: data,
	}
}

// codeSeenByGPU reads what a compute unit would fetch for this launch.
func codeSeenByGPU(
	p *platform, req *protocol.LaunchKernelReq,
) (code []byte, problem string) {
	n := uint64(len(req.CodeObject.Data))
	code = make([]byte, 0, n)
	pageSize := uint64(1) << log2PageSize
	for off := uint64(0); off < n; {
		vAddr := req.Packet.KernelObject + off
		page, found := p.pageTable.Find(req.PID, vAddr)
		if !found {
			return nil, fmt.Sprintf(
				"address 0x%x is not mapped for process %d", vAddr, req.PID)
		}
		inPage := vAddr - page.VAddr
		chunk := pageSize - inPage
		if chunk > n-off {
			chunk = n - off
		}
		data, err := p.storage.Read(page.PAddr+inPage, chunk)
		if err != nil {
			return nil, err.Error()
		}
		code = append(code, data...)
		off += chunk
	}
	return code, ""
}

// Two processes (two Init contexts, e.g. two benchmarks added to one runner)
// launch the same code object.
func TestKernelOfSecondProcessFindsItsCode(t *testing.T) {
	p := newPlatform(true, 2)
	co := makeCodeObject(256)

	var problems []string
	p.gpus[0].onLaunch = func(req *protocol.LaunchKernelReq) {
		code, problem := codeSeenByGPU(p, req)
		if problem != "" {
			problems = append(problems, fmt.Sprintf(
				"launch of process %d: %s", req.PID, problem))
			return
		}
		if !bytes.Equal(code, co.Data) {
			problems = append(problems, fmt.Sprintf(
				"launch of process %d: memory at KernelObject 0x%x holds "+
					"% x..., the code object starts with % x...",
				req.PID, req.Packet.KernelObject, code[:8], co.Data[:8]))
		}
	}

	p.driver.Run()
	ctxA := p.driver.Init()
	ctxB := p.driver.Init()

	// Process B owns a data buffer; it is the first thing B allocated.
	secret := bytes.Repeat([]byte{0x5E}, 256)
	bufB := p.driver.AllocateMemory(ctxB, 256)

	within(t, 20*time.Second, "the launches", func() {
		p.driver.MemCopyH2D(ctxB, bufB, secret)
		p.driver.LaunchKernel(ctxA, co,
			[3]uint32{64, 1, 1}, [3]uint16{64, 1, 1}, &kernArgs{1})
		p.driver.LaunchKernel(ctxB, co,
			[3]uint32{64, 1, 1}, [3]uint16{64, 1, 1}, &kernArgs{2})
	})
	p.driver.Terminate()

	for _, problem := range problems {
		t.Errorf("C12: a kernel must find its code object at "+
			"Packet.KernelObject in the address space of its own process "+
			"(the copy of the code precedes it in its queue) and contexts "+
			"must not disturb each other; %s", problem)
	}
}

// One process, two GPUs, one queue per GPU, the same kernel enqueued on both
// before either queue is drained (the pattern of every multi-GPU benchmark).
// Only the first queue carries the code copy; the kernel of the second queue
// does not wait for it.
func TestKernelOfSecondQueueWaitsForTheCodeCopy(t *testing.T) {
	// GPU 1 (which receives the code copy) is slow, GPU 2 is fast.
	p := newPlatform(false, 5000, 2)
	co := makeCodeObject(3 * 4096)

	var problems []string
	check := func(gpu int) func(req *protocol.LaunchKernelReq) {
		return func(req *protocol.LaunchKernelReq) {
			code, problem := codeSeenByGPU(p, req)
			if problem == "" && !bytes.Equal(code, co.Data) {
				problem = fmt.Sprintf("memory at KernelObject 0x%x holds "+
					"% x..., the code object starts with % x...",
					req.Packet.KernelObject, code[:8], co.Data[:8])
			}
			if problem != "" {
				problems = append(problems, fmt.Sprintf(
					"kernel launched on GPU %d: %s", gpu, problem))
			}
		}
	}
	p.gpus[0].onLaunch = check(1)
	p.gpus[1].onLaunch = check(2)

	p.driver.Run()
	ctx := p.driver.Init()

	within(t, 30*time.Second, "the launches", func() {
		p.driver.SelectGPU(ctx, 1)
		q1 := p.driver.CreateCommandQueue(ctx)
		p.driver.EnqueueLaunchKernel(q1, co,
			[3]uint32{64, 1, 1}, [3]uint16{64, 1, 1}, &kernArgs{1})

		p.driver.SelectGPU(ctx, 2)
		q2 := p.driver.CreateCommandQueue(ctx)
		p.driver.EnqueueLaunchKernel(q2, co,
			[3]uint32{64, 1, 1}, [3]uint16{64, 1, 1}, &kernArgs{2})

		p.driver.DrainCommandQueue(q1)
		p.driver.DrainCommandQueue(q2)
	})
	p.driver.Terminate()

	for _, problem := range problems {
		t.Errorf("C12: a kernel observes the copies that precede it, in "+
			"particular the copy of its own code object, whatever other "+
			"queues are doing; %s", problem)
	}
}
