package codecache_test

// Shared harness for the C12 audit demonstrations: a real driver.Driver on a
// serial engine, connected through a direct connection to hand-written fake
// GPUs (one port each) that answer the driver protocol.

import (
	"sync"
	"testing"
	"time"

	"github.com/sarchlab/akita/v4/mem/mem"
	"github.com/sarchlab/akita/v4/mem/vm"
	"github.com/sarchlab/akita/v4/sim"
	"github.com/sarchlab/akita/v4/sim/directconnection"
	"github.com/sarchlab/mgpusim/v4/amd/driver"
	"github.com/sarchlab/mgpusim/v4/amd/protocol"
)

const log2PageSize = 12

type pendingRsp struct {
	readyAt sim.VTimeInSec
	rsp     sim.Msg
}

// fakeGPU answers every request of the driver after `delay` cycles.
type fakeGPU struct {
	*sim.TickingComponent
	port    sim.Port
	storage *mem.Storage
	delay   int

	mu       sync.Mutex
	pending  []pendingRsp
	onLaunch func(req *protocol.LaunchKernelReq)
}

func newFakeGPU(
	name string, engine sim.Engine, storage *mem.Storage, delay int,
) *fakeGPU {
	g := &fakeGPU{storage: storage, delay: delay}
	g.TickingComponent = sim.NewTickingComponent(name, engine, 1*sim.GHz, g)
	g.port = sim.NewPort(g, 1024, 1024, name+".ToDriver")
	g.AddPort("ToDriver", g.port)
	return g
}

func (g *fakeGPU) Tick() bool {
	progress := false
	now := g.CurrentTime()

	for {
		msg := g.port.RetrieveIncoming()
		if msg == nil {
			break
		}
		progress = true
		readyAt := now + sim.VTimeInSec(g.delay)*1e-9

		switch req := msg.(type) {
		case *protocol.LaunchKernelReq:
			if g.onLaunch != nil {
				g.onLaunch(req)
			}
			rsp := protocol.NewLaunchKernelRsp(
				g.port.AsRemote(), req.Src, req.ID)
			g.pending = append(g.pending, pendingRsp{readyAt, rsp})
		case *protocol.MemCopyH2DReq:
			rsp := sim.GeneralRspBuilder{}.WithSrc(g.port.AsRemote()).
				WithDst(req.Src).WithOriginalReq(req).Build()
			g.pending = append(g.pending, pendingRsp{readyAt, rsp})
		case *protocol.MemCopyD2HReq:
			rsp := sim.GeneralRspBuilder{}.WithSrc(g.port.AsRemote()).
				WithDst(req.Src).WithOriginalReq(req).Build()
			g.pending = append(g.pending, pendingRsp{readyAt, rsp})
		case *protocol.FlushReq:
			rsp := sim.GeneralRspBuilder{}.WithSrc(g.port.AsRemote()).
				WithDst(req.Src).WithOriginalReq(req).Build()
			g.pending = append(g.pending, pendingRsp{readyAt, rsp})
		default:
			panic("fake GPU: unexpected message")
		}
	}

	for len(g.pending) > 0 && g.pending[0].readyAt <= now {
		p := g.pending[0]
		if h2d, ok := p.rsp.(*sim.GeneralRsp); ok {
			if r, ok := h2d.OriginalReq.(*protocol.MemCopyH2DReq); ok {
				_ = g.storage.Write(r.DstAddress, r.SrcBuffer)
			}
			if r, ok := h2d.OriginalReq.(*protocol.MemCopyD2HReq); ok {
				data, _ := g.storage.Read(r.SrcAddress, uint64(len(r.DstBuffer)))
				copy(r.DstBuffer, data)
			}
		}
		if err := g.port.Send(p.rsp); err != nil {
			break
		}
		g.pending = g.pending[1:]
		progress = true
	}

	return progress || len(g.pending) > 0
}

type platform struct {
	engine    *sim.SerialEngine
	driver    *driver.Driver
	gpus      []*fakeGPU
	storage   *mem.Storage
	pageTable vm.PageTable
}

// newPlatform builds a driver with numGPUs fake GPUs. delays[i] is the answer
// latency (cycles) of GPU i+1.
func newPlatform(magicCopy bool, delays ...int) *platform {
	p := &platform{}
	p.engine = sim.NewSerialEngine()
	p.storage = mem.NewStorage(uint64(len(delays)+1) * 4 * mem.GB)
	p.pageTable = vm.NewPageTable(log2PageSize)

	b := driver.MakeBuilder().
		WithEngine(p.engine).
		WithFreq(1 * sim.GHz).
		WithPageTable(p.pageTable).
		WithLog2PageSize(log2PageSize).
		WithGlobalStorage(p.storage)
	if magicCopy {
		b = b.WithMagicMemoryCopyMiddleware()
	}
	p.driver = b.Build("Driver")

	conn := directconnection.MakeBuilder().
		WithEngine(p.engine).WithFreq(1 * sim.GHz).Build("Conn")
	conn.PlugIn(p.driver.GetPortByName("GPU"))

	for i, d := range delays {
		g := newFakeGPU("GPU"+string(rune('1'+i)), p.engine, p.storage, d)
		conn.PlugIn(g.port)
		p.driver.RegisterGPU(g.port, driver.DeviceProperties{
			CUCount: 4, DRAMSize: 4 * mem.GB,
		})
		p.gpus = append(p.gpus, g)
	}

	return p
}

// within runs f and fails the test if it does not return in time.
func within(t *testing.T, d time.Duration, what string, f func()) {
	t.Helper()
	done := make(chan struct{})
	go func() {
		f()
		close(done)
	}()
	select {
	case <-done:
	case <-time.After(d):
		t.Fatalf("%s did not return within %v", what, d)
	}
}
