// Package c12devicesdemo: Driver.devices is appended to by CreateUnifiedGPU on an application thread
// while the simulation goroutine indexes it when it processes a unified multi-GPU kernel launch.
//
//	mkdir <tree>/amd/driver/c12devicesdemo && cp c12_devices_race_test.go <tree>/amd/driver/c12devicesdemo/
//	go test -race -count=1 ./amd/driver/c12devicesdemo/        # reported "DATA RACE" before the repair of the device table
package c12devicesdemo

import (
	"sync"
	"testing"
	"time"

	"github.com/sarchlab/akita/v4/mem/mem"
	"github.com/sarchlab/akita/v4/mem/vm"
	"github.com/sarchlab/akita/v4/sim"
	"github.com/sarchlab/akita/v4/sim/directconnection"
	"github.com/sarchlab/mgpusim/v4/amd/driver"
	"github.com/sarchlab/mgpusim/v4/amd/insts"
)

type sinkGPU struct {
	*sim.TickingComponent
	port sim.Port
}

func (g *sinkGPU) Tick() bool {
	if g.port.RetrieveIncoming() != nil {
		return true
	}
	return false
}

func TestC12CreateUnifiedGPUWhileUnifiedKernelsAreLaunched(t *testing.T) {
	engine := sim.NewSerialEngine()
	d := driver.MakeBuilder().
		WithEngine(engine).
		WithFreq(1 * sim.GHz).
		WithLog2PageSize(12).
		WithPageTable(vm.NewPageTable(12)).
		WithGlobalStorage(mem.NewStorage(16 * mem.GB)).
		WithMagicMemoryCopyMiddleware().
		Build("Driver")
	conn := directconnection.MakeBuilder().WithEngine(engine).WithFreq(1 * sim.GHz).Build("Conn")
	conn.PlugIn(d.GetPortByName("GPU"))
	for i := 0; i < 2; i++ {
		g := &sinkGPU{}
		g.TickingComponent = sim.NewTickingComponent("GPU", engine, 1*sim.GHz, g)
		g.port = sim.NewPort(g, 64, 64, "GPU.ToDriver")
		conn.PlugIn(g.port)
		d.RegisterGPU(g.port, driver.DeviceProperties{CUCount: 4, DRAMSize: 1 * mem.GB})
	}
	d.Run()

	ctx := d.Init()
	unified := d.CreateUnifiedGPU(ctx, []int{1, 2})
	d.SelectGPU(ctx, unified)

	co := &insts.KernelCodeObject{KernelCodeObjectMeta: &insts.KernelCodeObjectMeta{KernargSegmentByteSize: 16}, Data: make([]byte, 256)}
	type args struct{ A, B uint64 }

	var wg sync.WaitGroup
	wg.Add(2)
	go func() { // application thread 1: launches on the unified device
		defer wg.Done()
		for i := 0; i < 50; i++ {
			q := d.CreateCommandQueue(ctx)
			d.EnqueueLaunchKernel(q, co, [3]uint32{256, 1, 1}, [3]uint16{64, 1, 1}, &args{})
			time.Sleep(time.Millisecond)
		}
	}()
	go func() { // application thread 2: creates further unified devices
		defer wg.Done()
		ctx2 := d.Init()
		for i := 0; i < 50; i++ {
			d.CreateUnifiedGPU(ctx2, []int{1, 2})
			time.Sleep(time.Millisecond)
		}
	}()
	wg.Wait()
	time.Sleep(100 * time.Millisecond)
	d.Terminate()
}
