// Package c12buffersdemo: Context.buffers is appended to by the application thread (every
// EnqueueLaunchKernel allocates) while the simulation goroutine walks it to mark buffers dirty.
//
//	mkdir <tree>/amd/driver/c12buffersdemo && cp c12_buffers_race_test.go <tree>/amd/driver/c12buffersdemo/
//	go test -race -count=1 ./amd/driver/c12buffersdemo/
package c12buffersdemo

import (
	"testing"
	"time"

	"github.com/sarchlab/akita/v4/mem/mem"
	"github.com/sarchlab/akita/v4/mem/vm"
	"github.com/sarchlab/akita/v4/sim"
	"github.com/sarchlab/akita/v4/sim/directconnection"
	"github.com/sarchlab/mgpusim/v4/amd/driver"
	"github.com/sarchlab/mgpusim/v4/amd/insts"
)

type sinkGPU struct {
	*sim.TickingComponent
	port sim.Port
}

func (g *sinkGPU) Tick() bool { return g.port.RetrieveIncoming() != nil }

func TestC12AllocateWhileLaunchesAreProcessed(t *testing.T) {
	engine := sim.NewSerialEngine()
	d := driver.MakeBuilder().
		WithEngine(engine).
		WithFreq(1 * sim.GHz).
		WithLog2PageSize(12).
		WithPageTable(vm.NewPageTable(12)).
		WithGlobalStorage(mem.NewStorage(16 * mem.GB)).
		WithMagicMemoryCopyMiddleware().
		Build("Driver")
	conn := directconnection.MakeBuilder().WithEngine(engine).WithFreq(1 * sim.GHz).Build("Conn")
	conn.PlugIn(d.GetPortByName("GPU"))
	g := &sinkGPU{}
	g.TickingComponent = sim.NewTickingComponent("GPU", engine, 1*sim.GHz, g)
	g.port = sim.NewPort(g, 64, 64, "GPU.ToDriver")
	conn.PlugIn(g.port)
	d.RegisterGPU(g.port, driver.DeviceProperties{CUCount: 4, DRAMSize: 1 * mem.GB})
	d.Run()

	ctx := d.Init()
	d.SelectGPU(ctx, 1)
	co := &insts.KernelCodeObject{KernelCodeObjectMeta: &insts.KernelCodeObjectMeta{KernargSegmentByteSize: 16}, Data: make([]byte, 256)}
	type args struct{ A, B uint64 }

	// The simulation goroutine runs while some application thread waits for a queue. Thread A
	// launches kernels and waits; thread B (here: the test's own goroutine) allocates meanwhile.
	stop := make(chan struct{})
	go func() {
		for i := 0; i < 100; i++ {
			q := d.CreateCommandQueue(ctx)
			d.EnqueueLaunchKernel(q, co, [3]uint32{64, 1, 1}, [3]uint16{64, 1, 1}, &args{})
			go d.DrainCommandQueue(q) // the fake GPU never answers; the wait only keeps the engine going
			time.Sleep(time.Millisecond)
		}
		close(stop)
	}()
	for done := false; !done; {
		select {
		case <-stop:
			done = true
		default:
			d.AllocateMemory(ctx, 64)
		}
	}
	time.Sleep(100 * time.Millisecond)
	d.Terminate()
}
