// Package c12demo: the engine goroutine is leaving Engine.Run (no more events) while the
// application thread asks for another run. The request must not be lost.
//
//	mkdir <tree>/amd/driver/c12demo && cp c12_engine_handoff_test.go <tree>/amd/driver/c12demo/
//	go test -count=1 -v ./amd/driver/c12demo/
package c12demo

import (
	"sync"
	"testing"
	"time"

	"github.com/sarchlab/akita/v4/mem/mem"
	"github.com/sarchlab/akita/v4/mem/vm"
	"github.com/sarchlab/akita/v4/sim"
	"github.com/sarchlab/mgpusim/v4/amd/driver"
)

// slowExitEngine is the serial engine with one change: the first Run, after it
// has found the event queue empty, waits for the test before it returns. This
// stretches the window between "Run saw no more events" and the caller's
// bookkeeping, which in production is a few instructions wide.
type slowExitEngine struct {
	*sim.SerialEngine
	mu        sync.Mutex
	runs      int
	leaving   chan struct{}
	mayReturn chan struct{}
}

func (e *slowExitEngine) Run() error {
	err := e.SerialEngine.Run()
	e.mu.Lock()
	e.runs++
	first := e.runs == 1
	e.mu.Unlock()
	if first {
		e.leaving <- struct{}{}
		<-e.mayReturn
	}
	return err
}

func TestC12RunRequestDuringEngineExitIsNotLost(t *testing.T) {
	engine := &slowExitEngine{SerialEngine: sim.NewSerialEngine(), leaving: make(chan struct{}), mayReturn: make(chan struct{})}
	d := driver.MakeBuilder().
		WithEngine(engine).WithFreq(1 * sim.GHz).WithLog2PageSize(12).
		WithPageTable(vm.NewPageTable(12)).WithGlobalStorage(mem.NewStorage(1 * mem.GB)).
		Build("Driver")
	d.Run()
	ctx := d.Init()
	q := d.CreateCommandQueue(ctx)

	d.DrainCommandQueue(q) // empty queue: starts the engine goroutine and returns
	<-engine.leaving       // Run #1 has found no more events and is about to return

	done := make(chan bool)
	go func() {
		d.Enqueue(q, &driver.NoopCommand{})
		d.DrainCommandQueue(q) // schedules a tick and asks for the engine
		done <- true
	}()
	time.Sleep(300 * time.Millisecond) // let the request be seen while Run #1 is still "running"
	engine.mayReturn <- struct{}{}

	select {
	case <-done:
	case <-time.After(3 * time.Second):
		t.Fatalf("DrainCommandQueue never returned: the tick scheduled while the engine was leaving Run was never executed (engine runs: %d, commands left: %d)", engine.runs, q.NumCommand())
	}
}
