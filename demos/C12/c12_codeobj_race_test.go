// Package c12codeobjdemo: two application threads (one per GPU, as in data-parallel training, or one per
// benchmark in the runner) launch kernels at the same time; both fill the driver's code-object cache.
//
//	mkdir <tree>/amd/driver/c12codeobjdemo && cp c12_codeobj_race_test.go <tree>/amd/driver/c12codeobjdemo/
//	go test -race -count=1 ./amd/driver/c12codeobjdemo/
package c12codeobjdemo

import (
	"sync"
	"testing"

	"github.com/sarchlab/akita/v4/mem/mem"
	"github.com/sarchlab/akita/v4/mem/vm"
	"github.com/sarchlab/akita/v4/sim"
	"github.com/sarchlab/mgpusim/v4/amd/driver"
	"github.com/sarchlab/mgpusim/v4/amd/insts"
)

func TestC12TwoThreadsLaunchDifferentKernels(t *testing.T) {
	engine := sim.NewSerialEngine()
	d := driver.MakeBuilder().
		WithEngine(engine).
		WithFreq(1 * sim.GHz).
		WithLog2PageSize(12).
		WithPageTable(vm.NewPageTable(12)).
		WithGlobalStorage(mem.NewStorage(16 * mem.GB)).
		WithMagicMemoryCopyMiddleware().
		Build("Driver")
	for i := 0; i < 2; i++ {
		d.RegisterGPU(sim.NewPort(nil, 1, 1, "GPU.ToDriver"), driver.DeviceProperties{CUCount: 4, DRAMSize: 4 * mem.GB})
	}
	// the engine is not started: the commands only have to be enqueued
	type args struct{ A, B uint64 }
	var wg sync.WaitGroup
	for th := 0; th < 2; th++ {
		wg.Add(1)
		go func(gpu int) {
			defer wg.Done()
			ctx := d.Init()
			d.SelectGPU(ctx, gpu)
			q := d.CreateCommandQueue(ctx)
			for i := 0; i < 200; i++ {
				co := &insts.KernelCodeObject{KernelCodeObjectMeta: &insts.KernelCodeObjectMeta{KernargSegmentByteSize: 16}, Data: make([]byte, 256)}
				d.EnqueueLaunchKernel(q, co, [3]uint32{64, 1, 1}, [3]uint16{64, 1, 1}, &args{})
			}
		}(th + 1)
	}
	wg.Wait()
}
