// Package c12enddemo: the task of a command is closed before the thread that waits for the
// command is released (the application reads the kernel-time / busy-time tracers right
// after its last command).
//
//	mkdir <tree>/amd/driver/c12enddemo && cp c12_endtask_after_release_test.go <tree>/amd/driver/c12enddemo/
//	go test -count=1 -v ./amd/driver/c12enddemo/
//
// Real driver, serial engine, a fake GPU answering copy requests. The first tracer is slow
// in EndTask (a database tracer under load); the second one is what a reporter reads: it
// counts finished copy commands. The application reads it as soon as MemCopyH2D returns.
package c12enddemo

import (
	"sync/atomic"
	"testing"
	"time"

	"github.com/sarchlab/akita/v4/mem/mem"
	"github.com/sarchlab/akita/v4/mem/vm"
	"github.com/sarchlab/akita/v4/sim"
	"github.com/sarchlab/akita/v4/sim/directconnection"
	"github.com/sarchlab/akita/v4/tracing"
	"github.com/sarchlab/mgpusim/v4/amd/driver"
	"github.com/sarchlab/mgpusim/v4/amd/protocol"
)

type fakeGPU struct {
	*sim.TickingComponent
	port    sim.Port
	pending []sim.Msg
}

func (g *fakeGPU) Tick() bool {
	progress := false
	if len(g.pending) > 0 {
		if err := g.port.Send(g.pending[0]); err == nil {
			g.pending = g.pending[1:]
		}
		progress = true
	}
	msg := g.port.RetrieveIncoming()
	if msg == nil {
		return progress
	}
	req := msg.(*protocol.MemCopyH2DReq)
	g.pending = append(g.pending, sim.GeneralRspBuilder{}.
		WithSrc(g.port.AsRemote()).WithDst(req.Src).WithOriginalReq(req).Build())
	return true
}

type slowTracer struct{}

func (slowTracer) StartTask(tracing.Task) {}
func (slowTracer) StepTask(tracing.Task)  {}
func (slowTracer) EndTask(tracing.Task)   { time.Sleep(20 * time.Millisecond) }
func (slowTracer) AddMilestone(tracing.Milestone) {}

type countTracer struct{ ended atomic.Int32 }

func (c *countTracer) StartTask(tracing.Task) {}
func (c *countTracer) StepTask(tracing.Task)  {}
func (c *countTracer) EndTask(task tracing.Task) {
	c.ended.Add(1)
}
func (c *countTracer) AddMilestone(tracing.Milestone) {}

func TestC12CommandTaskIsClosedBeforeTheWaiterIsReleased(t *testing.T) {
	engine := sim.NewSerialEngine()
	d := driver.MakeBuilder().
		WithEngine(engine).WithFreq(1 * sim.GHz).WithLog2PageSize(12).
		WithPageTable(vm.NewPageTable(12)).WithGlobalStorage(mem.NewStorage(1 * mem.GB)).
		WithH2DCycles(2).Build("Driver")
	gpu := &fakeGPU{}
	gpu.TickingComponent = sim.NewTickingComponent("FakeGPU", engine, 1*sim.GHz, gpu)
	gpu.port = sim.NewPort(gpu, 16, 16, "FakeGPU.ToDriver")
	conn := directconnection.MakeBuilder().WithEngine(engine).WithFreq(1 * sim.GHz).Build("Conn")
	conn.PlugIn(d.GetPortByName("GPU"))
	conn.PlugIn(gpu.port)
	d.RegisterGPU(gpu.port, driver.DeviceProperties{CUCount: 4, DRAMSize: 64 * mem.MB})

	count := &countTracer{}
	tracing.CollectTrace(d, slowTracer{})
	tracing.CollectTrace(d, count)

	d.Run()
	ctx := d.Init()
	d.SelectGPU(ctx, 1)
	buf := d.AllocateMemory(ctx, 256)

	before := count.ended.Load()
	d.MemCopyH2D(ctx, buf, []byte{1, 2, 3, 4}) // blocks until the queue has drained
	seen := count.ended.Load() - before         // what a reporter reads at this point

	time.Sleep(200 * time.Millisecond)
	final := count.ended.Load() - before
	d.Terminate()

	if final == 0 {
		t.Fatalf("no task was ended for the copy at all")
	}
	if seen != final {
		t.Errorf("when MemCopyH2D returned, %d of the %d tasks of the copy had been closed: "+
			"the command's task is ended after its waiter was released, a report taken now misses it", seen, final)
	}
}
