// Package c12codeorderdemo: a kernel launched on a second queue relies on the code-object copy that the
// first queue enqueued (known finding R12.11, not repaired).
//
//	mkdir <tree>/amd/driver/c12codeorderdemo && cp c12_codeobj_order_test.go <tree>/amd/driver/c12codeorderdemo/
//	go test -count=1 -v ./amd/driver/c12codeorderdemo/
//
// Two GPUs, one queue each, the usual multi-GPU pattern of one application thread: enqueue the same
// kernel on both queues, then wait. The fake GPUs take time proportional to the size of a copy. The
// launch on the second queue must not reach its GPU before the code object is completely in memory.
package c12codeorderdemo

import (
	"fmt"
	"sync"
	"testing"

	"github.com/sarchlab/akita/v4/mem/mem"
	"github.com/sarchlab/akita/v4/mem/vm"
	"github.com/sarchlab/akita/v4/sim"
	"github.com/sarchlab/akita/v4/sim/directconnection"
	"github.com/sarchlab/mgpusim/v4/amd/driver"
	"github.com/sarchlab/mgpusim/v4/amd/insts"
	"github.com/sarchlab/mgpusim/v4/amd/protocol"
)

type event struct {
	kind string // "copied", "launch"
	addr uint64
	size uint64
	at   sim.VTimeInSec
	gpu  string
}

type shared struct {
	lock sync.Mutex
	log  []event
}

type pending struct {
	ready sim.VTimeInSec
	rsp   sim.Msg
	ev    *event
}

type fakeGPU struct {
	*sim.TickingComponent
	name string
	port sim.Port
	sh   *shared
	q    []pending

	dmaFree sim.VTimeInSec
}

func (g *fakeGPU) Tick() bool {
	now := g.CurrentTime()
	progress := len(g.q) > 0
	for i := 0; i < len(g.q); {
		if g.q[i].ready > now || g.port.Send(g.q[i].rsp) != nil {
			i++
			continue
		}
		if g.q[i].ev != nil {
			g.sh.lock.Lock()
			e := *g.q[i].ev
			e.at = now
			g.sh.log = append(g.sh.log, e)
			g.sh.lock.Unlock()
		}
		g.q = append(g.q[:i], g.q[i+1:]...)
	}
	msg := g.port.RetrieveIncoming()
	if msg == nil {
		return progress
	}
	general := func(req sim.Msg) sim.Msg {
		return sim.GeneralRspBuilder{}.WithSrc(g.port.AsRemote()).WithDst(req.Meta().Src).WithOriginalReq(req).Build()
	}
	switch req := msg.(type) {
	case *protocol.MemCopyH2DReq:
		n := uint64(len(req.SrcBuffer))
		start := now // one DMA engine: copies are served one after the other
		if g.dmaFree > start {
			start = g.dmaFree
		}
		g.dmaFree = start + sim.VTimeInSec(float64(10+n/8)*1e-9)
		g.q = append(g.q, pending{ready: g.dmaFree, rsp: general(req),
			ev: &event{kind: "copied", addr: req.DstAddress, size: n, gpu: g.name}})
	case *protocol.LaunchKernelReq:
		g.sh.lock.Lock()
		g.sh.log = append(g.sh.log, event{kind: "launch", addr: req.Packet.KernelObject, at: now, gpu: g.name})
		g.sh.lock.Unlock()
		g.q = append(g.q, pending{ready: now + 100e-9, rsp: protocol.NewLaunchKernelRsp(g.port.AsRemote(), req.Src, req.ID)})
	case *protocol.FlushReq:
		g.q = append(g.q, pending{ready: now + 1e-9, rsp: general(req)})
	default:
		panic(fmt.Sprintf("fake GPU: unexpected %T", msg))
	}
	return true
}

func TestC12SecondQueueLaunchWaitsForItsCode(t *testing.T) {
	engine := sim.NewSerialEngine()
	pt := vm.NewPageTable(12)
	d := driver.MakeBuilder().
		WithEngine(engine).WithFreq(1 * sim.GHz).WithLog2PageSize(12).
		WithPageTable(pt).WithGlobalStorage(mem.NewStorage(16 * mem.GB)).
		WithD2HCycles(1).WithH2DCycles(1).
		Build("Driver")
	conn := directconnection.MakeBuilder().WithEngine(engine).WithFreq(1 * sim.GHz).Build("Conn")
	conn.PlugIn(d.GetPortByName("GPU"))
	sh := &shared{}
	for i := 1; i <= 2; i++ {
		g := &fakeGPU{name: fmt.Sprintf("GPU%d", i), sh: sh}
		g.TickingComponent = sim.NewTickingComponent(g.name, engine, 1*sim.GHz, g)
		g.port = sim.NewPort(g, 4096, 4096, g.name+".ToDriver")
		conn.PlugIn(g.port)
		d.RegisterGPU(g.port, driver.DeviceProperties{CUCount: 4, DRAMSize: 4 * mem.GB})
	}
	d.Run()

	code := make([]byte, 64*1024) // a large kernel
	co := &insts.KernelCodeObject{KernelCodeObjectMeta: &insts.KernelCodeObjectMeta{KernargSegmentByteSize: 16}, Data: code}
	type args struct{ A, B uint64 }

	ctx := d.Init()
	d.SelectGPU(ctx, 1)
	q1 := d.CreateCommandQueue(ctx)
	d.EnqueueLaunchKernel(q1, co, [3]uint32{64, 1, 1}, [3]uint16{64, 1, 1}, &args{})
	d.SelectGPU(ctx, 2)
	q2 := d.CreateCommandQueue(ctx)
	d.EnqueueLaunchKernel(q2, co, [3]uint32{64, 1, 1}, [3]uint16{64, 1, 1}, &args{})
	d.DrainCommandQueue(q1)
	d.DrainCommandQueue(q2)
	d.Terminate()

	sh.lock.Lock()
	defer sh.lock.Unlock()
	for _, l := range sh.log {
		if l.kind != "launch" {
			continue
		}
		// the code object is the only large copy; its pieces are page sized (device addresses are
		// physical, the packet holds the virtual address, so pieces are recognised by their size)
		var covered uint64
		for _, c := range sh.log {
			if c.kind == "copied" && c.at <= l.at && c.size >= 1024 {
				covered += c.size
			}
		}
		if covered < uint64(len(code)) {
			t.Errorf("the kernel launch reached %s at %.0f ns with only %d of the %d bytes of its code object copied to the device",
				l.gpu, float64(l.at)*1e9, covered, len(code))
		}
	}
}
