// Package c12tracedemo: nothing is traced for a command after the thread waiting for it was released.
//
//	mkdir <tree>/amd/driver/c12tracedemo && cp c12_trace_after_release_test.go <tree>/amd/driver/c12tracedemo/
//	go test -count=1 -v ./amd/driver/c12tracedemo/
//
// A driver in emulation configuration (copies go straight to the global storage and complete inside
// ProcessCommand). The first tracer is slow in StartTask, like a database tracer under load; the
// second one records whether the blocking MemCopyH2D call had already returned to the application
// when the task of that very copy was started.
package c12tracedemo

import (
	"sync/atomic"
	"testing"
	"time"

	"github.com/sarchlab/akita/v4/mem/mem"
	"github.com/sarchlab/akita/v4/mem/vm"
	"github.com/sarchlab/akita/v4/sim"
	"github.com/sarchlab/akita/v4/tracing"
	"github.com/sarchlab/mgpusim/v4/amd/driver"
)

type slowTracer struct{}

func (slowTracer) StartTask(task tracing.Task) {
	if task.Kind == "Driver Command" {
		time.Sleep(20 * time.Millisecond)
	}
}
func (slowTracer) StepTask(tracing.Task)          {}
func (slowTracer) EndTask(tracing.Task)           {}
func (slowTracer) AddMilestone(tracing.Milestone) {}

type orderTracer struct {
	returned *atomic.Bool
	late     atomic.Int32
	started  atomic.Int32
}

func (o *orderTracer) StartTask(task tracing.Task) {
	if task.Kind != "Driver Command" || task.What != "*driver.MemCopyH2DCommand" {
		return
	}
	o.started.Add(1)
	if o.returned.Load() {
		o.late.Add(1)
	}
}
func (o *orderTracer) StepTask(tracing.Task)          {}
func (o *orderTracer) EndTask(tracing.Task)           {}
func (o *orderTracer) AddMilestone(tracing.Milestone) {}

func TestC12NoTaskIsStartedForAFinishedCommand(t *testing.T) {
	engine := sim.NewSerialEngine()
	pageTable := vm.NewPageTable(12)
	storage := mem.NewStorage(1 * mem.GB)
	d := driver.MakeBuilder().
		WithEngine(engine).
		WithFreq(1 * sim.GHz).
		WithLog2PageSize(12).
		WithPageTable(pageTable).
		WithGlobalStorage(storage).
		WithMagicMemoryCopyMiddleware().
		Build("Driver")
	gpuPort := sim.NewPort(nil, 1, 1, "GPU.ToDriver")
	d.RegisterGPU(gpuPort, driver.DeviceProperties{CUCount: 4, DRAMSize: 64 * mem.MB})

	var returned atomic.Bool
	order := &orderTracer{returned: &returned}
	tracing.CollectTrace(d, slowTracer{})
	tracing.CollectTrace(d, order)

	d.Run()
	ctx := d.Init()
	d.SelectGPU(ctx, 1)
	buf := d.AllocateMemory(ctx, 64)

	d.MemCopyH2D(ctx, buf, make([]byte, 64)) // blocks until the queue has drained
	returned.Store(true)

	time.Sleep(200 * time.Millisecond) // let the simulation goroutine finish what it was doing
	d.Terminate()

	if order.started.Load() != 1 {
		t.Fatalf("%d tasks started for the copy, want 1", order.started.Load())
	}
	if order.late.Load() != 0 {
		t.Errorf("the task of the copy command was started after MemCopyH2D had returned to the application: " +
			"an application that ends the simulation at this point closes the tracers under the simulation goroutine")
	}
}
