// Run (from the worktree root):
//
//	export PATH=/opt/veriftools/go1.26.8/bin:$PATH GOTOOLCHAIN=local GOFLAGS=-mod=mod GOPROXY=off GOSUMDB=off
//	go test ./c12demo/magiccopytiming/ -run . -count=1 -v
//
// C12: the commands of a queue take effect in order, each observing all memory
// effects of its predecessors - a copy back to the host returns what the
// kernels before it wrote, a kernel reads what the copies before it wrote.
//
// The timing platform can be built with the "magic" memory-copy middleware
// (runner flag -magic-memory-copy, timingconfig.Builder.WithMagicMemoryCopy).
// That middleware reads and writes the DRAM storage directly when the command
// is processed and - unlike defaultMemoryCopyMiddleware, which sends a FlushReq
// to the GPUs for dirty buffers - never flushes or invalidates the GPU's
// write-back L2. The results of a kernel that are still in the L2 are therefore
// invisible to the copy that follows the kernel.
package magiccopytiming_test

import (
	"path/filepath"
	"testing"
	"time"

	"github.com/sarchlab/akita/v4/simulation"
	"github.com/sarchlab/mgpusim/v4/amd/driver"
	"github.com/sarchlab/mgpusim/v4/amd/samples/runner/timingconfig"
)

func run(t *testing.T, magic bool) (in, out []uint32) {
	s := simulation.MakeBuilder().
		WithoutMonitoring().
		WithOutputFileName(filepath.Join(t.TempDir(), "sim")).
		Build()

	b := timingconfig.MakeBuilder().WithSimulation(s).WithNumGPUs(1)
	if magic {
		b = b.WithMagicMemoryCopy()
	}
	b.Build()

	d := s.GetComponentByName("Driver").(*driver.Driver)
	d.Run()

	const n = 1024
	in = make([]uint32, n)
	for i := range in {
		in[i] = 0xC0DE0000 + uint32(i)
	}
	out = make([]uint32, n)

	ctx := d.Init()
	src := d.AllocateMemory(ctx, n*4)
	dst := d.AllocateMemory(ctx, n*4)

	done := make(chan struct{})
	go func() {
		q := d.CreateCommandQueue(ctx)
		d.EnqueueMemCopyH2D(q, src, in)
		d.EnqueueMemCopyD2D(q, dst, src, n*4) // a kernel: dst[i] = src[i]
		d.EnqueueMemCopyD2H(q, out, dst)
		d.DrainCommandQueue(q)
		close(done)
	}()
	select {
	case <-done:
	case <-time.After(10 * time.Minute):
		t.Fatal("the queue did not drain")
	}
	d.Terminate()

	return in, out
}

func countWrong(in, out []uint32) (wrong int, first int) {
	first = -1
	for i := range in {
		if in[i] != out[i] {
			if first < 0 {
				first = i
			}
			wrong++
		}
	}
	return wrong, first
}

// Control: with the default middleware the same queue returns the data.
func TestDefaultCopyAfterKernelSeesTheKernelsWrites(t *testing.T) {
	in, out := run(t, false)
	if wrong, first := countWrong(in, out); wrong != 0 {
		t.Errorf("default middleware: %d of %d words wrong, first at %d: "+
			"got 0x%x want 0x%x", wrong, len(in), first, out[first], in[first])
	}
}

func TestMagicCopyAfterKernelSeesTheKernelsWrites(t *testing.T) {
	in, out := run(t, true)
	if wrong, first := countWrong(in, out); wrong != 0 {
		t.Errorf("C12: a copy observes all memory effects of the commands "+
			"before it in its queue; queue = [H2D src, kernel dst[i]=src[i], "+
			"D2H dst] on the timing platform with the magic memory-copy "+
			"middleware: %d of %d words read back wrong, first at word %d: "+
			"got 0x%x, the kernel wrote 0x%x (the kernel's result is still "+
			"in the write-back L2, which this middleware never flushes)",
			wrong, len(in), first, out[first], in[first])
	}
}
