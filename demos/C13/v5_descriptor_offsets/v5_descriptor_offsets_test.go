// Copy this directory to <tree>/c13demo/<name>/ and run from the tree root:
//
//	export PATH=/opt/veriftools/go1.26.8/bin:$PATH GOTOOLCHAIN=local GOFLAGS=-mod=mod GOPROXY=off GOSUMDB=off
//	go test ./c13demo/v5_descriptor_offsets/ -count=1
//
// Defect: insts.parseV5KernelDescriptor (amd/insts/hsaco.go) reads
// compute_pgm_rsrc3 / compute_pgm_rsrc1 / compute_pgm_rsrc2 /
// kernel_code_properties from descriptor bytes 40 / 44 / 48 / 52. The AMDHSA
// kernel descriptor has 20 reserved bytes after kernel_code_entry_byte_offset,
// so the fields really live at 44 / 48 / 52 / 56. Every word is taken 4 bytes
// too early: the loader's "ComputePgmRsrc1" is the file's compute_pgm_rsrc3,
// its "ComputePgmRsrc2" is (a rewritten copy of) the file's compute_pgm_rsrc1,
// and the file's real compute_pgm_rsrc2 and kernel_code_properties are never
// looked at.
package demo

import (
	"debug/elf"
	"os"
	"path/filepath"
	"strings"
	"testing"

	"github.com/sarchlab/mgpusim/v4/amd/insts"
)

const root = "../../"

func nativeHSACOs(t *testing.T) []string {
	t.Helper()
	var out []string
	err := filepath.Walk(root+"amd/benchmarks", func(p string, info os.FileInfo, err error) error {
		if err != nil {
			return err
		}
		// the native/ directories hold the objects exactly as hipcc wrote them
		// (see e.g. amd/benchmarks/shoc/stencil2d/native/Makefile)
		if strings.HasSuffix(p, ".hsaco") && filepath.Base(filepath.Dir(p)) == "native" {
			out = append(out, p)
		}
		return nil
	})
	if err != nil {
		t.Fatal(err)
	}
	if len(out) == 0 {
		t.Fatal("no shipped native/*.hsaco found")
	}
	return out
}

func align(v, a uint64) uint64 { return (v + a - 1) / a * a }

// For every kernel of every shipped hipcc-produced code object, parse the
// descriptor independently (LLVM layout) and compare with what the loader
// returns. The independent parse is itself cross-checked against the
// assembler's <kernel>.num_vgpr / .numbered_sgpr symbols, so that a failure
// cannot be blamed on the oracle using the wrong offsets.
func TestShippedV5KernelsGetTheirOwnRsrcWords(t *testing.T) {
	kernels, bad := 0, 0

	for _, path := range nativeHSACOs(t) {
		f, err := elf.Open(path)
		if err != nil {
			t.Fatal(err)
		}
		syms, err := f.Symbols()
		if err != nil {
			t.Fatal(err)
		}
		byName := map[string]elf.Symbol{}
		for _, s := range syms {
			byName[s.Name] = s
		}
		rodata := f.Section(".rodata")
		rodataBytes, _ := rodata.Data()

		for _, s := range syms {
			kdSym, isKernel := byName[s.Name+".kd"]
			if !isKernel || s.Size == 0 {
				continue
			}
			kernels++
			rel := strings.TrimPrefix(path, root)
			kd := parseKernelDescriptor(rodataBytes[kdSym.Value-rodata.Addr:][:64])

			// --- sanity of the oracle (gfx942: VGPR granule 8, SGPR granule 8,
			// rsrc3[5:0] = accum_offset/4-1 and accum_offset = align4(num_vgpr))
			numVgpr := byName[s.Name+".num_vgpr"].Value
			numAgpr := byName[s.Name+".num_agpr"].Value
			numSgpr := byName[s.Name+".numbered_sgpr"].Value
			accumOffset := uint64(kd.computePgmRsrc3&0x3f+1) * 4
			vgprsInRsrc1 := uint64(kd.computePgmRsrc1&0x3f+1) * 8
			sgprsInRsrc1 := uint64(kd.computePgmRsrc1>>6&0xf+1) * 8
			if accumOffset != align(max(numVgpr, 1), 4) ||
				vgprsInRsrc1 < numVgpr+numAgpr || sgprsInRsrc1 < numSgpr {
				t.Fatalf("%s %s: oracle self-check failed (accum_offset %d, rsrc1 vgprs %d sgprs %d, "+
					"symbols num_vgpr %d num_agpr %d numbered_sgpr %d)",
					rel, s.Name, accumOffset, vgprsInRsrc1, sgprsInRsrc1, numVgpr, numAgpr, numSgpr)
			}

			// --- the loader
			co := insts.LoadKernelCodeObjectFromFS(path, s.Name)
			ok := true
			if co.ComputePgmRsrc1 != kd.computePgmRsrc1 {
				ok = false
				t.Errorf("%s %s: the file stores compute_pgm_rsrc1=%#08x (descriptor bytes 48..51; "+
					"it encodes %d VGPRs / %d SGPRs, consistent with %s.num_vgpr=%d, .numbered_sgpr=%d) "+
					"and compute_pgm_rsrc3=%#x (bytes 44..47, accum_offset %d); the loaded "+
					"KernelCodeObject must carry that rsrc1, but ComputePgmRsrc1=%#08x - the file's rsrc3",
					rel, s.Name, kd.computePgmRsrc1, vgprsInRsrc1, sgprsInRsrc1, s.Name, numVgpr, numSgpr,
					kd.computePgmRsrc3, accumOffset, co.ComputePgmRsrc1)
			}
			if co.ComputePgmRsrc3 != kd.computePgmRsrc3 {
				ok = false
				t.Errorf("%s %s: the file stores compute_pgm_rsrc3=%#x, loaded ComputePgmRsrc3=%#x",
					rel, s.Name, kd.computePgmRsrc3, co.ComputePgmRsrc3)
			}
			fileWGIDZ := kd.computePgmRsrc2>>9&1 != 0
			if co.EnableSgprWorkGroupIDZ() != fileWGIDZ {
				ok = false
				t.Errorf("%s %s: the file's compute_pgm_rsrc2=%#x says enable_sgpr_workgroup_id_z=%v, "+
					"the loaded code object says %v (bit 9 of the file's rsrc1 %#08x, i.e. a bit of the "+
					"granulated SGPR count)",
					rel, s.Name, kd.computePgmRsrc2, fileWGIDZ, co.EnableSgprWorkGroupIDZ(), kd.computePgmRsrc1)
			}
			if !ok {
				bad++
			}
		}
	}

	if bad > 0 {
		t.Errorf("%d of %d shipped hipcc-produced kernels are loaded with another field's bits in "+
			"ComputePgmRsrc1/2/3", bad, kernels)
	}
}

// relocatableV5 builds a one-kernel, unlinked (ET_REL, like the shipped gfx942
// objects) code object around the given descriptor. No <kernel>.num_vgpr /
// .numbered_sgpr symbols are emitted (LLVM <= 18 does not emit them), so the
// descriptor is the only source of metadata.
func relocatableV5(kd kernelDescriptor) []byte {
	text := make([]byte, 16)
	copy(text, []byte{0x00, 0x00, 0x80, 0xbf, 0x00, 0x00, 0x81, 0xbf}) // s_nop 0; s_endpgm
	return buildELF(elfSpec{
		etype: etRel,
		flags: 0x52c, // gfx900, xnack/sramecc "any"
		sections: []*section{
			{name: ".text", typ: shtProgbits, flags: shfAlloc | shfExec, data: text, addralign: 256},
			{name: ".rodata", typ: shtProgbits, flags: shfAlloc, data: kd.bytes(), addralign: 64},
		},
		symbols: []symbol{
			{name: "k3d", value: 0, size: uint64(len(text)), bind: stbGlobal, typ: sttFunc, other: 3, secName: ".text"},
			{name: "k3d.kd", value: 0, size: 64, bind: stbGlobal, typ: sttObject, other: 3, secName: ".rodata"},
		},
	})
}

// A kernel that uses blockIdx.z and threadIdx.z: compute_pgm_rsrc2 enables the
// workgroup-id Z SGPR and all three work-item-id VGPRs.
func TestV5WorkgroupAndWorkitemIDEnablesComeFromRsrc2(t *testing.T) {
	kd := kernelDescriptor{
		kernargSize:          24,
		computePgmRsrc1:      0x00af0000 | 1<<6 | 3, // 16 VGPRs, 16 SGPRs
		computePgmRsrc2:      2<<1 | 1<<7 | 1<<8 | 1<<9 | 2<<11,
		kernelCodeProperties: 1 << 3, // enable_sgpr_kernarg_segment_ptr
	}
	co := insts.LoadKernelCodeObjectFromBytes(relocatableV5(kd), "k3d")

	if !co.EnableSgprWorkGroupIDZ() {
		t.Errorf("the descriptor's compute_pgm_rsrc2=%#x enables the workgroup-id-Z SGPR, so the loaded "+
			"code object must too; got EnableSgprWorkGroupIDZ()=false (loaded ComputePgmRsrc2=%#x was "+
			"derived from the file's rsrc1 %#x)", kd.computePgmRsrc2, co.ComputePgmRsrc2, kd.computePgmRsrc1)
	}
	if co.EnableVgprWorkItemID() != 2 {
		t.Errorf("the descriptor's compute_pgm_rsrc2=%#x has enable_vgpr_workitem_id=2 (X,Y,Z); "+
			"loaded EnableVgprWorkItemID()=%d", kd.computePgmRsrc2, co.EnableVgprWorkItemID())
	}
}

// Register counts when the assembler's metadata symbols are absent: they can
// only come from compute_pgm_rsrc1. The expectation below uses the loader's
// own documented formula ((granulated+1)*4 VGPRs, (granulated+1)*8 SGPRs); on
// real hardware the figures are at least that large.
func TestV5RegisterCountsComeFromRsrc1(t *testing.T) {
	kd := kernelDescriptor{
		kernargSize:          8,
		computePgmRsrc1:      0x00af0000 | 5<<6 | 15, // granulated 15 -> 64 VGPRs, 5 -> 48 SGPRs
		computePgmRsrc2:      2<<1 | 1<<7,
		kernelCodeProperties: 1 << 3,
	}
	co := insts.LoadKernelCodeObjectFromBytes(relocatableV5(kd), "k3d")

	if co.WIVgprCount < 64 {
		t.Errorf("compute_pgm_rsrc1=%#x stores granulated_workitem_vgpr_count=15, i.e. 64 VGPRs per "+
			"work-item; loaded WIVgprCount=%d (computed from compute_pgm_rsrc3=%#x), so the resource "+
			"allocator would overlap the VGPRs of different wavefronts",
			kd.computePgmRsrc1, co.WIVgprCount, kd.computePgmRsrc3)
	}
	if co.WFSgprCount < 48 {
		t.Errorf("compute_pgm_rsrc1=%#x stores granulated_wavefront_sgpr_count=5, i.e. 48 SGPRs per "+
			"wavefront; loaded WFSgprCount=%d", kd.computePgmRsrc1, co.WFSgprCount)
	}
	if got := co.WorkItemVgprCount(); got != 15 {
		t.Errorf("WorkItemVgprCount() must return the file's granulated VGPR count 15, got %d", got)
	}
}
