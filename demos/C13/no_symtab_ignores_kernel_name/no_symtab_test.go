// Copy this directory to <tree>/c13demo/<name>/ and run from the tree root:
//
//	export PATH=/opt/veriftools/go1.26.8/bin:$PATH GOTOOLCHAIN=local GOFLAGS=-mod=mod GOPROXY=off GOSUMDB=off
//	go test ./c13demo/no_symtab_ignores_kernel_name/ -count=1
//
// Defect: loadKernelCodeObjectFromELF looks kernels up in .symtab only
// (elf.File.Symbols). When the code object has no .symtab - a stripped shared
// object, which still carries every kernel and every <kernel>.kd descriptor
// symbol in .dynsym, the table the HSA runtime itself uses - the function
// returns newKernelCodeObjectFromEntireTextSection(.text) *without looking at
// kernelName at all*: the caller gets the concatenation of all kernels of the
// file, with all-zero metadata (no descriptor is consulted), and gets it even
// for a name that does not exist.
package demo

import (
	"bytes"
	"debug/elf"
	"testing"

	"github.com/sarchlab/mgpusim/v4/amd/insts"
)

const root = "../../"

// The shipped two-kernel stencil2d object, linked (see link_test.go), once
// with its full symbol table and once stripped down to .dynsym. Stripping
// removes no kernel, no descriptor and no byte of code.
func TestStrippedCodeObjectStillYieldsTheNamedKernel(t *testing.T) {
	const path = "amd/benchmarks/shoc/stencil2d/kernels_gfx942.hsaco"
	full := linkObject(t, root+path, false)
	stripped := linkObject(t, root+path, true)

	sf, err := elf.NewFile(bytes.NewReader(stripped))
	if err != nil {
		t.Fatal(err)
	}
	dyn, err := sf.DynamicSymbols()
	if err != nil {
		t.Fatal(err)
	}
	names := map[string]bool{}
	for _, s := range dyn {
		names[s.Name] = true
	}
	for _, n := range []string{"CopyRect", "CopyRect.kd", "StencilKernel", "StencilKernel.kd"} {
		if !names[n] {
			t.Fatalf("test setup: stripped object lacks dynamic symbol %s", n)
		}
	}

	for _, k := range []string{"CopyRect", "StencilKernel"} {
		want := insts.LoadKernelCodeObjectFromBytes(full, k)
		got := insts.LoadKernelCodeObjectFromBytes(stripped, k)

		if !bytes.Equal(got.Data, want.Data) {
			t.Errorf("loading %q from the stripped object must yield that kernel's %d instruction bytes "+
				"(as it does from the unstripped object); got %d bytes = the whole .text section, i.e. "+
				"all kernels of the file", k, len(want.Data), len(got.Data))
		}
		if got.KernargSegmentByteSize != want.KernargSegmentByteSize ||
			got.GroupSegmentByteSize != want.GroupSegmentByteSize ||
			got.WIVgprCount < want.WIVgprCount&^3 || got.WFSgprCount == 0 {
			t.Errorf("%q: metadata must come from %s.kd (kernarg %d B, LDS %d B, >0 registers); got kernarg "+
				"%d B, LDS %d B, %d VGPRs, %d SGPRs - the descriptor was never consulted",
				k, k, want.KernargSegmentByteSize, want.GroupSegmentByteSize,
				got.KernargSegmentByteSize, got.GroupSegmentByteSize, got.WIVgprCount, got.WFSgprCount)
		}
	}

	a := insts.LoadKernelCodeObjectFromBytes(stripped, "CopyRect")
	b := insts.LoadKernelCodeObjectFromBytes(stripped, "StencilKernel")
	if bytes.Equal(a.Data, b.Data) {
		t.Errorf("two different kernel names of one file yielded identical code (%d bytes): the name is ignored",
			len(a.Data))
	}
	if c := insts.LoadKernelCodeObjectFromBytes(stripped, "noSuchKernel"); c != nil {
		t.Errorf("a name that is in no symbol table of the file must not yield a kernel; got %d bytes of code",
			len(c.Data))
	}
}
