// Copy this directory to <tree>/c13demo/<name>/ and run from the tree root:
//
//	export PATH=/opt/veriftools/go1.26.8/bin:$PATH GOTOOLCHAIN=local GOFLAGS=-mod=mod GOPROXY=off GOSUMDB=off
//	go test ./c13demo/v5_linked_entry_offset/ -count=1
//
// Defect: for a descriptor-based (V5) kernel, loadKernelCodeObjectFromELF
// returns Data = exactly the kernel's instructions, but
// parseV5KernelDescriptor copies the descriptor's raw
// kernel_code_entry_byte_offset into KernelCodeEntryByteOffset. That field is
// the distance from the *descriptor* (in .rodata) to the entry point (in
// .text), not an offset into Data. Both consumers start the wavefront at
// KernelObject + KernelCodeEntryByteOffset, KernelObject being the device copy
// of Data (amd/emu/computeunit.go initWfRegs, amd/timing/cu/wfdispatcher.go).
// The V2/V3 branch resets the field to 0 after stripping the header; the V5
// branch does not. All shipped gfx942 files happen to be unlinked ET_REL
// objects, in which the field is still an unresolved relocation (0), so they
// work by accident; any linked code object (what hipcc --genco, clang
// --offload-device-only without -c, or the HIP fat binary contain) gets an
// entry point far outside its code.
package demo

import (
	"bytes"
	"debug/elf"
	"testing"

	"github.com/sarchlab/mgpusim/v4/amd/insts"
)

const root = "../../"

func kernel(fill byte, n int) []byte {
	b := bytes.Repeat([]byte{fill, 0x00, 0x80, 0xbf}, n/4) // s_nop <fill>
	copy(b[len(b)-4:], []byte{0x00, 0x00, 0x81, 0xbf})     // s_endpgm
	return b
}

// Two kernels in a linked code object laid out the way ld.lld does it:
// .rodata (descriptors) at 0x640, .text at 0x1700.
func TestLinkedV5EntryPointIsFirstInstructionOfTheKernel(t *testing.T) {
	const rodataAddr, textAddr = 0x640, 0x1700
	k1, k2 := kernel(1, 0x100), kernel(2, 0x40)
	text := append(append([]byte{}, k1...), k2...)
	k1Addr, k2Addr := uint64(textAddr), uint64(textAddr+len(k1))

	kd := func(kdAddr, entry uint64) kernelDescriptor {
		return kernelDescriptor{
			kernargSize:               16,
			kernelCodeEntryByteOffset: int64(entry) - int64(kdAddr),
			computePgmRsrc1:           0x00af0040,
			computePgmRsrc2:           0x84,
			kernelCodeProperties:      8,
		}
	}
	rodata := append(kd(rodataAddr, k1Addr).bytes(), kd(rodataAddr+64, k2Addr).bytes()...)

	obj := buildELF(elfSpec{
		etype: etDyn,
		flags: 0x54c,
		sections: []*section{
			{name: ".rodata", typ: shtProgbits, flags: shfAlloc, addr: rodataAddr, data: rodata, addralign: 64},
			{name: ".text", typ: shtProgbits, flags: shfAlloc | shfExec, addr: textAddr, data: text, addralign: 256},
		},
		symbols: []symbol{
			{name: "k1", value: k1Addr, size: uint64(len(k1)), bind: stbGlobal, typ: sttFunc, other: 3, secName: ".text"},
			{name: "k1.kd", value: rodataAddr, size: 64, bind: stbGlobal, typ: sttObject, other: 3, secName: ".rodata"},
			{name: "k2", value: k2Addr, size: uint64(len(k2)), bind: stbGlobal, typ: sttFunc, other: 3, secName: ".text"},
			{name: "k2.kd", value: rodataAddr + 64, size: 64, bind: stbGlobal, typ: sttObject, other: 3, secName: ".rodata"},
		},
	})

	for _, c := range []struct {
		name   string
		code   []byte
		kdAddr uint64
		addr   uint64
	}{{"k1", k1, rodataAddr, k1Addr}, {"k2", k2, rodataAddr + 64, k2Addr}} {
		co := insts.LoadKernelCodeObjectFromBytes(obj, c.name)
		if !bytes.Equal(co.Data, c.code) {
			t.Fatalf("%s: wrong instruction bytes", c.name)
		}
		// descriptor address + stored offset == address of the kernel symbol,
		// i.e. the entry point is Data[0].
		if co.KernelCodeEntryByteOffset != 0 {
			t.Errorf("%s: the descriptor at %#x stores kernel_code_entry_byte_offset=%#x, so the entry point "+
				"is address %#x = the first instruction of %s = Data[0]; wavefronts start at "+
				"KernelObject+KernelCodeEntryByteOffset with KernelObject = device copy of Data, so the "+
				"loaded entry offset must be 0; got %#x, which is %d bytes past the end of the %d-byte kernel",
				c.name, c.kdAddr, c.addr-c.kdAddr, c.addr, c.name,
				co.KernelCodeEntryByteOffset, int(co.KernelCodeEntryByteOffset)-len(co.Data), len(co.Data))
		}
	}
}

// Metamorphic version on shipped binaries: linking an object file changes
// addresses, not kernels. Whatever the loader returns for a kernel of the
// shipped relocatable object it must also return for the same kernel of the
// linked object.
func TestLinkingAShippedObjectDoesNotChangeTheLoadedKernel(t *testing.T) {
	for _, c := range []struct{ path, kernel string }{
		{"amd/benchmarks/amdappsdk/vectoradd/native/vectoradd.hsaco", "_Z15vectoradd_floatPfPKfS1_ii"},
		{"amd/benchmarks/shoc/stencil2d/kernels_gfx942.hsaco", "CopyRect"},
		{"amd/benchmarks/shoc/stencil2d/kernels_gfx942.hsaco", "StencilKernel"},
		{"amd/benchmarks/dnn/gputensor/operator_gfx942.hsaco", "adam"},
	} {
		unlinked := insts.LoadKernelCodeObjectFromFS(root+c.path, c.kernel)
		linkedObj := linkObject(t, root+c.path, false)
		if _, err := elf.NewFile(bytes.NewReader(linkedObj)); err != nil {
			t.Fatal(err)
		}
		linked := insts.LoadKernelCodeObjectFromBytes(linkedObj, c.kernel)

		if !bytes.Equal(unlinked.Data, linked.Data) {
			t.Errorf("%s %s: instruction bytes differ between unlinked and linked object", c.path, c.kernel)
		}
		um, lm := *unlinked.KernelCodeObjectMeta, *linked.KernelCodeObjectMeta
		if um.KernelCodeEntryByteOffset != lm.KernelCodeEntryByteOffset {
			t.Errorf("%s %s: the same kernel must load with the same entry offset whether or not the "+
				"object has been linked; unlinked %#x, linked %#x - the linked kernel, %d bytes long, "+
				"would start executing at Data+%#x",
				c.path, c.kernel, um.KernelCodeEntryByteOffset, lm.KernelCodeEntryByteOffset,
				len(linked.Data), lm.KernelCodeEntryByteOffset)
		}
		um.KernelCodeEntryByteOffset, lm.KernelCodeEntryByteOffset = 0, 0
		if um != lm {
			t.Errorf("%s %s: other metadata differs:\n unlinked: %+v\n linked:   %+v", c.path, c.kernel, um, lm)
		}
	}
}
