package demo

// linkObject does to a shipped, unlinked (ET_REL) gfx942 object what ld.lld
// -shared does to it: it gives .rodata and .text virtual addresses, rebases the
// symbols, and resolves the R_AMDGPU_REL64 relocations of .rela.rodata (the
// kernel_code_entry_byte_offset fields of the kernel descriptors). The result
// is an ordinary ET_DYN AMDHSA code object containing the very same kernels.

import (
	"debug/elf"
	"encoding/binary"
	"os"
	"testing"
)

const rAMDGPURel64 = 5

func linkObject(t *testing.T, path string, dynsymOnly bool) []byte {
	t.Helper()

	raw, err := os.ReadFile(path)
	if err != nil {
		t.Fatal(err)
	}
	f, err := elf.Open(path)
	if err != nil {
		t.Fatal(err)
	}
	defer f.Close()
	if f.Type != elf.ET_REL {
		t.Fatalf("%s is not a relocatable object", path)
	}

	text, _ := f.Section(".text").Data()
	rodata, _ := f.Section(".rodata").Data()
	rodata = append([]byte(nil), rodata...)

	rodataAddr := uint64(0x640)
	textAddr := (rodataAddr+uint64(len(rodata))+255)/256*256 + 0x1000
	addrOf := map[string]uint64{".text": textAddr, ".rodata": rodataAddr}

	syms, err := f.Symbols()
	if err != nil {
		t.Fatal(err)
	}
	var out []symbol
	newValue := make([]uint64, len(syms)+1) // indexed like the ELF symbol table
	for i, s := range syms {
		ns := symbol{name: s.Name, size: s.Size,
			bind: uint8(elf.ST_BIND(s.Info)), typ: uint8(elf.ST_TYPE(s.Info)), other: s.Other}
		switch {
		case s.Section == elf.SHN_ABS:
			ns.secName, ns.value = "*ABS*", s.Value
		case int(s.Section) < len(f.Sections) && addrOf[f.Sections[s.Section].Name] != 0:
			ns.secName = f.Sections[s.Section].Name
			ns.value = s.Value + addrOf[ns.secName]
		default:
			continue // .bss etc.: irrelevant here
		}
		newValue[i+1] = ns.value
		if dynsymOnly && ns.bind == stbLocal {
			continue // a stripped object only keeps the dynamic (global) symbols
		}
		out = append(out, ns)
	}

	if rela := f.Section(".rela.rodata"); rela != nil {
		rd, _ := rela.Data()
		for ; len(rd) >= 24; rd = rd[24:] {
			off := binary.LittleEndian.Uint64(rd[0:])
			info := binary.LittleEndian.Uint64(rd[8:])
			addend := int64(binary.LittleEndian.Uint64(rd[16:]))
			if info&0xffffffff != rAMDGPURel64 {
				t.Fatalf("unexpected relocation type %d", info&0xffffffff)
			}
			s := newValue[info>>32]
			p := rodataAddr + off
			binary.LittleEndian.PutUint64(rodata[off:], uint64(int64(s)+addend-int64(p)))
		}
	}

	return buildELF(elfSpec{
		etype: etDyn,
		flags: binary.LittleEndian.Uint32(raw[48:]),
		sections: []*section{
			{name: ".rodata", typ: shtProgbits, flags: shfAlloc, addr: rodataAddr, data: rodata, addralign: 64},
			{name: ".text", typ: shtProgbits, flags: shfAlloc | shfExec, addr: textAddr, data: text, addralign: 256},
		},
		symbols:    out,
		dynsymOnly: dynsymOnly,
	})
}
