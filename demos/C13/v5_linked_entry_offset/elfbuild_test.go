package demo

// A tiny ELF64 little-endian writer, just enough to produce well-formed AMDGPU
// code objects (sections with chosen virtual addresses, a symbol table) that
// Go's debug/elf - and therefore insts.LoadKernelCodeObjectFromBytes - accepts.
// It has no dependency on the code under audit.

import (
	"bytes"
	"encoding/binary"
)

const (
	shtProgbits = 1
	shtSymtab   = 2
	shtStrtab   = 3
	shtDynsym   = 11

	shfWrite = 1
	shfAlloc = 2
	shfExec  = 4

	sttNotype = 0
	sttObject = 1
	sttFunc   = 2
	// STT_AMDGPU_HSA_KERNEL, used by code object V2
	sttAmdgpuHsaKernel = 10

	stbLocal  = 0
	stbGlobal = 1

	shnAbs = 0xfff1

	etRel = 1
	etDyn = 3
)

type section struct {
	name      string
	typ       uint32
	flags     uint64
	addr      uint64
	data      []byte
	link      uint32
	info      uint32
	entsize   uint64
	addralign uint64

	// filled in by build
	off     uint64
	nameOff uint32
}

type symbol struct {
	name    string
	value   uint64
	size    uint64
	bind    uint8
	typ     uint8
	other   uint8
	secName string // "" = undefined, "*ABS*" = SHN_ABS, else section name
}

type elfSpec struct {
	etype    uint16
	flags    uint32 // e_flags (EF_AMDGPU_MACH...)
	sections []*section
	symbols  []symbol
	// dynsymOnly puts the symbols in .dynsym/.dynstr and emits no .symtab, as
	// a stripped shared object looks like.
	dynsymOnly bool
}

type strtab struct {
	buf bytes.Buffer
}

func newStrtab() *strtab {
	s := &strtab{}
	s.buf.WriteByte(0)
	return s
}

func (s *strtab) add(str string) uint32 {
	if str == "" {
		return 0
	}
	off := uint32(s.buf.Len())
	s.buf.WriteString(str)
	s.buf.WriteByte(0)
	return off
}

func buildELF(spec elfSpec) []byte {
	secs := []*section{{name: ""}} // index 0: SHT_NULL
	secs = append(secs, spec.sections...)

	indexOf := func(name string) uint16 {
		for i, s := range secs {
			if i > 0 && s.name == name {
				return uint16(i)
			}
		}
		panic("no section " + name)
	}

	// symbol table + its string table
	symSecName, strSecName := ".symtab", ".strtab"
	symType := uint32(shtSymtab)
	if spec.dynsymOnly {
		symSecName, strSecName = ".dynsym", ".dynstr"
		symType = shtDynsym
	}

	symstr := newStrtab()
	var symData bytes.Buffer
	symData.Write(make([]byte, 24)) // null symbol
	firstGlobal := uint32(1)
	// locals must precede globals
	ordered := make([]symbol, 0, len(spec.symbols))
	for _, s := range spec.symbols {
		if s.bind == stbLocal {
			ordered = append(ordered, s)
		}
	}
	firstGlobal += uint32(len(ordered))
	for _, s := range spec.symbols {
		if s.bind != stbLocal {
			ordered = append(ordered, s)
		}
	}
	for _, s := range ordered {
		var shndx uint16
		switch s.secName {
		case "":
			shndx = 0
		case "*ABS*":
			shndx = shnAbs
		default:
			shndx = indexOf(s.secName)
		}
		var e [24]byte
		binary.LittleEndian.PutUint32(e[0:], symstr.add(s.name))
		e[4] = s.bind<<4 | s.typ
		e[5] = s.other
		binary.LittleEndian.PutUint16(e[6:], shndx)
		binary.LittleEndian.PutUint64(e[8:], s.value)
		binary.LittleEndian.PutUint64(e[16:], s.size)
		symData.Write(e[:])
	}

	strSec := &section{name: strSecName, typ: shtStrtab, data: symstr.buf.Bytes(), addralign: 1}
	symSec := &section{name: symSecName, typ: symType, data: symData.Bytes(),
		info: firstGlobal, entsize: 24, addralign: 8}
	if spec.dynsymOnly {
		strSec.flags, symSec.flags = shfAlloc, shfAlloc
	}
	secs = append(secs, symSec, strSec)
	symSec.link = uint32(len(secs) - 1)

	shstr := newStrtab()
	shstrSec := &section{name: ".shstrtab", typ: shtStrtab, addralign: 1}
	secs = append(secs, shstrSec)
	for _, s := range secs {
		s.nameOff = shstr.add(s.name)
	}
	shstrSec.data = shstr.buf.Bytes()

	// lay the section contents out after the ELF header
	off := uint64(64)
	for i, s := range secs {
		if i == 0 {
			continue
		}
		al := s.addralign
		if al == 0 {
			al = 1
		}
		off = (off + al - 1) / al * al
		s.off = off
		off += uint64(len(s.data))
	}
	shoff := (off + 7) / 8 * 8

	out := make([]byte, shoff+uint64(len(secs))*64)
	copy(out[0:], []byte{0x7f, 'E', 'L', 'F', 2 /*64*/, 1 /*LE*/, 1, 64 /*ELFOSABI_AMDGPU_HSA*/, 3})
	binary.LittleEndian.PutUint16(out[16:], spec.etype)
	binary.LittleEndian.PutUint16(out[18:], 224) // EM_AMDGPU
	binary.LittleEndian.PutUint32(out[20:], 1)
	binary.LittleEndian.PutUint64(out[24:], 0)     // e_entry
	binary.LittleEndian.PutUint64(out[32:], 0)     // e_phoff
	binary.LittleEndian.PutUint64(out[40:], shoff) // e_shoff
	binary.LittleEndian.PutUint32(out[48:], spec.flags)
	binary.LittleEndian.PutUint16(out[52:], 64) // e_ehsize
	binary.LittleEndian.PutUint16(out[54:], 0)  // e_phentsize
	binary.LittleEndian.PutUint16(out[56:], 0)  // e_phnum
	binary.LittleEndian.PutUint16(out[58:], 64) // e_shentsize
	binary.LittleEndian.PutUint16(out[60:], uint16(len(secs)))
	binary.LittleEndian.PutUint16(out[62:], uint16(len(secs)-1)) // e_shstrndx

	for i, s := range secs {
		if i > 0 {
			copy(out[s.off:], s.data)
		}
		h := out[shoff+uint64(i)*64:]
		if i == 0 {
			continue
		}
		binary.LittleEndian.PutUint32(h[0:], s.nameOff)
		binary.LittleEndian.PutUint32(h[4:], s.typ)
		binary.LittleEndian.PutUint64(h[8:], s.flags)
		binary.LittleEndian.PutUint64(h[16:], s.addr)
		binary.LittleEndian.PutUint64(h[24:], s.off)
		binary.LittleEndian.PutUint64(h[32:], uint64(len(s.data)))
		binary.LittleEndian.PutUint32(h[40:], s.link)
		binary.LittleEndian.PutUint32(h[44:], s.info)
		binary.LittleEndian.PutUint64(h[48:], s.addralign)
		binary.LittleEndian.PutUint64(h[56:], s.entsize)
	}

	return out
}

// kernelDescriptor is the 64-byte AMDHSA kernel descriptor, laid out exactly as
// llvm/include/llvm/Support/AMDHSAKernelDescriptor.h (and the "Kernel
// Descriptor" table of the LLVM AMDGPUUsage document) define it:
//
//	 0  group_segment_fixed_size      u32
//	 4  private_segment_fixed_size    u32
//	 8  kernarg_size                  u32
//	12  reserved0                     4 bytes
//	16  kernel_code_entry_byte_offset i64  (entry address - descriptor address)
//	24  reserved1                     20 bytes
//	44  compute_pgm_rsrc3             u32
//	48  compute_pgm_rsrc1             u32
//	52  compute_pgm_rsrc2             u32
//	56  kernel_code_properties        u16
//	58  kernarg_preload               u16
//	60  reserved3                     4 bytes
type kernelDescriptor struct {
	groupSegmentFixedSize     uint32
	privateSegmentFixedSize   uint32
	kernargSize               uint32
	kernelCodeEntryByteOffset int64
	computePgmRsrc3           uint32
	computePgmRsrc1           uint32
	computePgmRsrc2           uint32
	kernelCodeProperties      uint16
	kernargPreload            uint16
}

func (k kernelDescriptor) bytes() []byte {
	b := make([]byte, 64)
	binary.LittleEndian.PutUint32(b[0:], k.groupSegmentFixedSize)
	binary.LittleEndian.PutUint32(b[4:], k.privateSegmentFixedSize)
	binary.LittleEndian.PutUint32(b[8:], k.kernargSize)
	binary.LittleEndian.PutUint64(b[16:], uint64(k.kernelCodeEntryByteOffset))
	binary.LittleEndian.PutUint32(b[44:], k.computePgmRsrc3)
	binary.LittleEndian.PutUint32(b[48:], k.computePgmRsrc1)
	binary.LittleEndian.PutUint32(b[52:], k.computePgmRsrc2)
	binary.LittleEndian.PutUint16(b[56:], k.kernelCodeProperties)
	binary.LittleEndian.PutUint16(b[58:], k.kernargPreload)
	return b
}

func parseKernelDescriptor(b []byte) kernelDescriptor {
	return kernelDescriptor{
		groupSegmentFixedSize:     binary.LittleEndian.Uint32(b[0:]),
		privateSegmentFixedSize:   binary.LittleEndian.Uint32(b[4:]),
		kernargSize:               binary.LittleEndian.Uint32(b[8:]),
		kernelCodeEntryByteOffset: int64(binary.LittleEndian.Uint64(b[16:])),
		computePgmRsrc3:           binary.LittleEndian.Uint32(b[44:]),
		computePgmRsrc1:           binary.LittleEndian.Uint32(b[48:]),
		computePgmRsrc2:           binary.LittleEndian.Uint32(b[52:]),
		kernelCodeProperties:      binary.LittleEndian.Uint16(b[56:]),
		kernargPreload:            binary.LittleEndian.Uint16(b[58:]),
	}
}
