package internal

// Demonstration for C10 (run in file-list mode, see README.md in this directory).

import (
	"testing"

	"github.com/sarchlab/akita/v4/mem/vm"
)

func newDemoAllocator() (*memoryAllocatorImpl, vm.PageTable) {
	pt := vm.NewPageTable(12)
	a := NewMemoryAllocator(pt, 12).(*memoryAllocatorImpl)
	dev := &Device{ID: 1, Type: DeviceTypeGPU, MemState: NewDeviceMemoryState(12)}
	dev.SetTotalMemSize(16 * 4096)
	a.RegisterDevice(dev)
	return a, pt
}

// Freeing a three-page buffer must unmap all three pages and return their
// physical pages to the device.
func TestC10FreeUnmapsEveryPageOfTheBuffer(t *testing.T) {
	a, pt := newDemoAllocator()
	ptr := a.Allocate(1, 3*4096, 1)
	a.Free(ptr)
	for i := uint64(0); i < 3; i++ {
		if _, found := pt.Find(1, ptr+i*4096); found {
			t.Errorf("page %d of the freed buffer (vAddr %#x) is still mapped", i, ptr+i*4096)
		}
	}
	ms := a.devices[1].MemState.(*deviceMemoryStateImpl)
	if got := len(ms.availablePAddrs); got != 16 {
		t.Errorf("free physical pages after Allocate(3 pages)+Free: %d, want 16", got)
	}
}

// KNOWN FINDING R10.7: two processes get the same virtual addresses, the
// allocator's mirror is keyed by virtual address only, so freeing process 1's
// buffer unmaps process 2's.
func TestC10FreeDoesNotTouchOtherProcess(t *testing.T) {
	a, pt := newDemoAllocator()
	p1 := a.Allocate(1, 4096, 1)
	p2 := a.Allocate(2, 4096, 1)
	if p1 != p2 {
		t.Skip("processes no longer share virtual addresses")
	}
	a.Free(p1) // process 1 frees its own buffer
	if _, found := pt.Find(2, p2); !found {
		t.Errorf("process 2's live page %#x was unmapped by process 1's Free", p2)
	}
	if _, found := pt.Find(1, p1); found {
		t.Errorf("process 1's freed page %#x is still mapped", p1)
	}
}

// Remapping a buffer onto a unified (virtual multi-GPU) device takes the physical
// pages from a member GPU; the page must be recorded on that member.
func TestC10RemapOntoUnifiedDeviceRecordsOwningGPU(t *testing.T) {
	pt := vm.NewPageTable(12)
	a := NewMemoryAllocator(pt, 12).(*memoryAllocatorImpl)
	var gpus []*Device
	for id := 1; id <= 2; id++ {
		dev := &Device{ID: id, Type: DeviceTypeGPU, MemState: NewDeviceMemoryState(12)}
		dev.SetTotalMemSize(16 * 4096)
		a.RegisterDevice(dev)
		gpus = append(gpus, dev)
	}
	uni := &Device{ID: 3, Type: DeviceTypeUnifiedGPU, UnifiedGPUIDs: []int{1, 2}, ActualGPUs: gpus, MemState: NewDeviceMemoryState(12)}
	a.RegisterDevice(uni)

	ptr := a.Allocate(1, 2*4096, 1)
	a.Remap(1, ptr, 2*4096, 3)
	for i := uint64(0); i < 2; i++ {
		page, _ := pt.Find(1, ptr+i*4096)
		owner := a.devices[int(page.DeviceID)]
		if !isPAddrOnDevice(page.PAddr, owner.MemState) {
			t.Errorf("page %#x: physical address %#x is not inside the memory of device %d recorded for it", page.VAddr, page.PAddr, page.DeviceID)
		}
	}
}

// KNOWN FINDING R10.9: re-homing a page never returns its old physical page. One live page
// bounced between two GPUs exhausts both memories.
func TestC10RemapReleasesTheOldPhysicalPage(t *testing.T) {
	pt := vm.NewPageTable(12)
	a := NewMemoryAllocator(pt, 12).(*memoryAllocatorImpl)
	for id := 1; id <= 2; id++ {
		dev := &Device{ID: id, Type: DeviceTypeGPU, MemState: NewDeviceMemoryState(12)}
		dev.SetTotalMemSize(16 * 4096)
		a.RegisterDevice(dev)
	}
	ptr := a.Allocate(1, 4096, 1)
	defer func() {
		if r := recover(); r != nil {
			t.Errorf("one live page, 2 x 16 physical pages, and the driver panicked: %v", r)
		}
	}()
	for i := 0; i < 40; i++ {
		a.Remap(1, ptr, 4096, 1+(i+1)%2)
	}
}
