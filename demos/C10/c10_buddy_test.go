package internal

// Demonstration for C10 (buddy allocator): a live physical page is handed out again.
//   cp c10_buddy_test.go <tree>/amd/driver/internal/ ; cd <tree>/amd/driver/internal
//   go test -count=1 -v -run TestC10Buddy $(ls *.go | grep -v _test.go) c10_buddy_test.go

import "testing"

func TestC10BuddyNeverHandsOutALivePage(t *testing.T) {
	bms := newDeviceBuddyMemoryState(12).(*deviceBuddyMemoryState)
	bms.setInitialAddress(0x10000)
	bms.setStorageSize(16 * 4096)

	live := map[uint64]string{}
	alloc := func(name string, n int) []uint64 {
		pages := bms.allocateMultiplePages(n)
		for _, p := range pages {
			if owner, taken := live[p]; taken {
				t.Fatalf("page %#x handed out to %s while it still belongs to %s", p, name, owner)
			}
			live[p] = name
		}
		return pages
	}
	free := func(pages []uint64) {
		for _, p := range pages {
			delete(live, p)
			bms.addSinglePAddr(p)
		}
	}

	alloc("A", 1)      // splits the whole memory down to one page
	alloc("B", 2)      // takes the free 2-page block
	alloc("C", 1)      // takes A's buddy
	d := alloc("D", 1) // has to split the free 4-page block
	free(d)            // D's block is merged back ... too far
	for i := 0; i < 12; i++ {
		alloc("E", 1)
	}
}
