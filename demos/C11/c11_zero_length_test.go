// Package c11demo: a zero-length host-to-device copy must complete (C11 "each copy completes
// exactly once ... for any offset and length").
//
//	mkdir <tree>/amd/driver/c11demo && cp c11_zero_length_test.go <tree>/amd/driver/c11demo/
//	go test -count=1 -v ./amd/driver/c11demo/
//
// The harness (real driver, serial engine, a fake GPU answering copy requests) follows
// /verif/seeded/C05/demo.
package c11demo

import (
	"testing"
	"time"

	"github.com/sarchlab/akita/v4/mem/mem"
	"github.com/sarchlab/akita/v4/mem/vm"
	"github.com/sarchlab/akita/v4/sim"
	"github.com/sarchlab/akita/v4/sim/directconnection"
	"github.com/sarchlab/mgpusim/v4/amd/driver"
	"github.com/sarchlab/mgpusim/v4/amd/protocol"
)

type fakeGPU struct {
	*sim.TickingComponent
	port    sim.Port
	pending []sim.Msg
}

func (g *fakeGPU) Tick() bool {
	progress := false
	if len(g.pending) > 0 {
		if err := g.port.Send(g.pending[0]); err == nil {
			g.pending = g.pending[1:]
		}
		progress = true
	}
	msg := g.port.RetrieveIncoming()
	if msg == nil {
		return progress
	}
	req := msg.(*protocol.MemCopyH2DReq)
	g.pending = append(g.pending, sim.GeneralRspBuilder{}.
		WithSrc(g.port.AsRemote()).WithDst(req.Src).WithOriginalReq(req).Build())
	return true
}

func TestC11ZeroLengthCopyCompletes(t *testing.T) {
	engine := sim.NewSerialEngine()
	d := driver.MakeBuilder().
		WithEngine(engine).WithFreq(1 * sim.GHz).WithLog2PageSize(12).
		WithPageTable(vm.NewPageTable(12)).WithGlobalStorage(mem.NewStorage(1 * mem.GB)).
		WithH2DCycles(2).Build("Driver")
	gpu := &fakeGPU{}
	gpu.TickingComponent = sim.NewTickingComponent("FakeGPU", engine, 1*sim.GHz, gpu)
	gpu.port = sim.NewPort(gpu, 16, 16, "FakeGPU.ToDriver")
	conn := directconnection.MakeBuilder().WithEngine(engine).WithFreq(1 * sim.GHz).Build("Conn")
	conn.PlugIn(d.GetPortByName("GPU"))
	conn.PlugIn(gpu.port)
	d.RegisterGPU(gpu.port, driver.DeviceProperties{CUCount: 4, DRAMSize: 64 * mem.MB})
	d.Run()

	ctx := d.Init()
	d.SelectGPU(ctx, 1)
	q := d.CreateCommandQueue(ctx)
	buf := d.AllocateMemory(ctx, 256)

	done := make(chan bool)
	go func() {
		d.EnqueueMemCopyH2D(q, buf, []byte{})           // nothing to copy
		d.EnqueueMemCopyH2D(q, buf, []byte{1, 2, 3, 4}) // must still run afterwards
		d.DrainCommandQueue(q)
		done <- true
	}()
	select {
	case <-done:
	case <-time.After(5 * time.Second):
		t.Fatalf("DrainCommandQueue did not return within 5 s: the zero-length copy never completed (%d command(s) left in the queue)", q.NumCommand())
	}
}
