// Package c11pidflushdemo: a buffer allocated through one context and written by a kernel that was
// launched through another context of the same process (InitWithExistingPID, as the DNN training
// benchmarks do per GPU) is flushed before it is copied to the host.
//
//	mkdir <tree>/amd/driver/c11pidflushdemo && cp c11_shared_pid_flush_test.go <tree>/amd/driver/c11pidflushdemo/
//	go test -count=1 -v ./amd/driver/c11pidflushdemo/
package c11pidflushdemo

import (
	"fmt"
	"sync"
	"testing"

	"github.com/sarchlab/akita/v4/mem/mem"
	"github.com/sarchlab/akita/v4/mem/vm"
	"github.com/sarchlab/akita/v4/sim"
	"github.com/sarchlab/akita/v4/sim/directconnection"
	"github.com/sarchlab/mgpusim/v4/amd/driver"
	"github.com/sarchlab/mgpusim/v4/amd/insts"
	"github.com/sarchlab/mgpusim/v4/amd/protocol"
)

// fakeGPU answers every request at once and keeps a log of what it was asked to do.
type fakeGPU struct {
	*sim.TickingComponent
	port sim.Port
	lock sync.Mutex
	log  []string
	out  []sim.Msg
}

func (g *fakeGPU) Tick() bool {
	g.lock.Lock()
	defer g.lock.Unlock()
	progress := false
	for len(g.out) > 0 && g.port.Send(g.out[0]) == nil {
		g.out = g.out[1:]
		progress = true
	}
	msg := g.port.RetrieveIncoming()
	if msg == nil {
		return progress
	}
	switch req := msg.(type) {
	case *protocol.LaunchKernelReq:
		g.log = append(g.log, "launch")
		g.out = append(g.out, protocol.NewLaunchKernelRsp(g.port.AsRemote(), req.Src, req.ID))
	case *protocol.FlushReq:
		g.log = append(g.log, "flush")
		g.out = append(g.out, sim.GeneralRspBuilder{}.WithSrc(g.port.AsRemote()).WithDst(req.Src).WithOriginalReq(req).Build())
	case *protocol.MemCopyD2HReq:
		g.log = append(g.log, "d2h")
		g.out = append(g.out, sim.GeneralRspBuilder{}.WithSrc(g.port.AsRemote()).WithDst(req.Src).WithOriginalReq(req).Build())
	case *protocol.MemCopyH2DReq:
		g.log = append(g.log, "h2d")
		g.out = append(g.out, sim.GeneralRspBuilder{}.WithSrc(g.port.AsRemote()).WithDst(req.Src).WithOriginalReq(req).Build())
	default:
		panic(fmt.Sprintf("fake GPU: unexpected %T", msg))
	}
	return true
}

func TestC11BufferOfAnotherContextOfTheProcessIsFlushed(t *testing.T) {
	engine := sim.NewSerialEngine()
	d := driver.MakeBuilder().
		WithEngine(engine).
		WithFreq(1 * sim.GHz).
		WithLog2PageSize(12).
		WithPageTable(vm.NewPageTable(12)).
		WithGlobalStorage(mem.NewStorage(4 * mem.GB)).
		WithD2HCycles(1).WithH2DCycles(1).
		Build("Driver")
	conn := directconnection.MakeBuilder().WithEngine(engine).WithFreq(1 * sim.GHz).Build("Conn")
	conn.PlugIn(d.GetPortByName("GPU"))
	g := &fakeGPU{}
	g.TickingComponent = sim.NewTickingComponent("GPU", engine, 1*sim.GHz, g)
	g.port = sim.NewPort(g, 64, 64, "GPU.ToDriver")
	conn.PlugIn(g.port)
	d.RegisterGPU(g.port, driver.DeviceProperties{CUCount: 4, DRAMSize: 1 * mem.GB})
	d.Run()

	owner := d.Init()
	d.SelectGPU(owner, 1)
	result := d.AllocateMemory(owner, 256) // the output buffer belongs to the first context

	worker := d.InitWithExistingPID(owner) // same process, its own queues
	d.SelectGPU(worker, 1)
	co := &insts.KernelCodeObject{KernelCodeObjectMeta: &insts.KernelCodeObjectMeta{KernargSegmentByteSize: 16}, Data: make([]byte, 256)}
	type args struct {
		Out uint64
		N   uint64
	}
	d.LaunchKernel(worker, co, [3]uint32{64, 1, 1}, [3]uint16{64, 1, 1}, &args{Out: uint64(result), N: 64})

	g.lock.Lock()
	mark := len(g.log)
	g.lock.Unlock()

	host := make([]byte, 256)
	d.MemCopyD2H(owner, host, result)
	d.Terminate()

	g.lock.Lock()
	after := append([]string{}, g.log[mark:]...)
	g.lock.Unlock()
	flushed := false
	for _, e := range after {
		if e == "flush" {
			flushed = true
		}
		if e == "d2h" && !flushed {
			t.Fatalf("the kernel's output buffer was copied to the host without a cache flush (GPU saw %v after the launch): the copy reads DRAM while the data is still in the L2", after)
		}
	}
	if !flushed {
		t.Fatalf("no flush was issued at all: %v", after)
	}
}
