// Copy this directory to <tree>/c11demo/d2dtail/ and run from the tree root:
//
//	export PATH=/opt/veriftools/go1.26.8/bin:$PATH GOTOOLCHAIN=local GOFLAGS=-mod=mod GOPROXY=off GOSUMDB=off
//	go test ./c11demo/d2dtail/ -count=1 -v
//
// C11: a copy moves exactly the requested bytes. MemCopyD2D launches the copy kernel
// (one 4-byte word per work-item) with ceil(num/4) work-items and hands it the byte
// count as its bound, so for a size that is not a multiple of 4 the last word is copied
// whole: MemCopyD2D(dst, src, 6) overwrites dst[6] and dst[7].
package d2dtail_test

import (
	"os"
	"testing"

	"github.com/sarchlab/akita/v4/simulation"
	"github.com/sarchlab/mgpusim/v4/amd/driver"
	"github.com/sarchlab/mgpusim/v4/amd/samples/runner/emusystem"
)

func TestMain(m *testing.M) {
	tmp, _ := os.MkdirTemp("", "c11demo")
	os.Chdir(tmp) // the simulation drops an sqlite file into the cwd
	code := m.Run()
	os.RemoveAll(tmp)
	os.Exit(code)
}

func TestD2DCopiesExactlyTheRequestedBytes(t *testing.T) {
	s := simulation.MakeBuilder().WithoutMonitoring().Build()
	emusystem.MakeBuilder().WithSimulation(s).WithNumGPUs(1).Build()
	d := s.GetComponentByName("Driver").(*driver.Driver)
	d.Run()
	defer func() { d.Terminate(); s.Terminate() }()

	ctx := d.Init()
	for _, num := range []int{6, 3, 13, 8} {
		src := d.AllocateMemory(ctx, 16)
		dst := d.AllocateMemory(ctx, 16)
		in := []byte{1, 2, 3, 4, 5, 6, 7, 8, 9, 10, 11, 12, 13, 14, 15, 16}
		fill := make([]byte, 16)
		for i := range fill {
			fill[i] = 0xEE
		}
		d.MemCopyH2D(ctx, src, in)
		d.MemCopyH2D(ctx, dst, fill)
		d.MemCopyD2D(ctx, dst, src, num)
		out := make([]byte, 16)
		d.MemCopyD2H(ctx, out, dst)
		for i := 0; i < 16; i++ {
			want := byte(0xEE)
			if i < num {
				want = in[i]
			}
			if out[i] != want {
				t.Errorf("MemCopyD2D(dst, src, %d): dst[%d] = %#x, want %#x (bytes behind the requested range must stay untouched): %v", num, i, out[i], want, out)
				break
			}
		}
	}
}
