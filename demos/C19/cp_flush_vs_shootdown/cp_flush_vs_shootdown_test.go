// Run from the worktree root (/tmp/audit/C19):
//
//	export PATH=/opt/veriftools/go1.26.8/bin:$PATH GOTOOLCHAIN=local GOFLAGS=-mod=mod GOPROXY=off GOSUMDB=off
//	go test ./c19demo/cp_flush_vs_shootdown/ -count=1 -v
//
// Property C19: the drain - shootdown - migrate - restart handshake must be
// carried out in order (the page may only be copied after the host GPU's
// pipelines were stopped and its caches written back), and requests that
// arrive while a migration is in progress are served, none is lost.
//
// The command processor keeps ONE counter of outstanding cache acknowledgements
// (numCacheACK) and ONE "current flush request" for three different users:
//   - the ordinary cache flush the driver asks for before a memory copy
//     (cpMiddleware.processFlushReq),
//   - the flush-and-invalidate step of a TLB shootdown
//     (ctrlMiddleware.processAddressTranslatorFlushRsp),
//   - the cache restart (ctrlMiddleware.processGPURestartReq).
//
// processCacheFlushRsp decides what the counter reaching zero means by looking
// only at shootDownInProcess. A driver FlushReq that overlaps a shootdown is
// therefore either never answered, or its acknowledgements are taken for the
// shootdown's and the shootdown completes before the CUs and caches were
// flushed.
package cp_flush_vs_shootdown

import (
	"reflect"
	"testing"

	"github.com/sarchlab/akita/v4/mem/cache"
	"github.com/sarchlab/akita/v4/mem/mem"
	"github.com/sarchlab/akita/v4/mem/vm/tlb"
	"github.com/sarchlab/akita/v4/sim"
	"github.com/sarchlab/akita/v4/sim/directconnection"
	"github.com/sarchlab/mgpusim/v4/amd/protocol"
	"github.com/sarchlab/mgpusim/v4/amd/timing/cp"
)

// agent is a hand-written fake that owns one port per neighbour of the CP. It
// records everything it receives and sends what the test queues.
type agent struct {
	*sim.TickingComponent
	ports map[string]sim.Port
	order []string
	recvd map[string][]sim.Msg
	toSnd map[string][]sim.Msg
}

func newAgent(engine sim.Engine, names ...string) *agent {
	a := &agent{
		ports: map[string]sim.Port{},
		recvd: map[string][]sim.Msg{},
		toSnd: map[string][]sim.Msg{},
		order: names,
	}
	a.TickingComponent = sim.NewTickingComponent("Agent", engine, 1*sim.GHz, a)
	for _, n := range names {
		p := sim.NewPort(a, 64, 64, "Agent."+n)
		a.AddPort(n, p)
		a.ports[n] = p
	}
	return a
}

func (a *agent) Tick() bool {
	progress := false
	for _, n := range a.order {
		p := a.ports[n]
		for {
			m := p.RetrieveIncoming()
			if m == nil {
				break
			}
			a.recvd[n] = append(a.recvd[n], m)
			progress = true
		}
		for len(a.toSnd[n]) > 0 {
			if err := p.Send(a.toSnd[n][0]); err != nil {
				break
			}
			a.toSnd[n] = a.toSnd[n][1:]
			progress = true
		}
	}
	return progress
}

func (a *agent) send(port string, m sim.Msg) {
	a.toSnd[port] = append(a.toSnd[port], m)
	a.TickLater()
}

// take returns and clears what was received on the port.
func (a *agent) take(port string) []sim.Msg {
	r := a.recvd[port]
	a.recvd[port] = nil
	return r
}

type bench struct {
	engine sim.Engine
	cp     *cp.CommandProcessor
	a      *agent
}

func newBench() *bench {
	engine := sim.NewSerialEngine()
	a := newAgent(engine, "Driver", "CU", "AT", "L2", "TLB", "RDMA", "PMC")

	c := cp.MakeBuilder().WithEngine(engine).WithFreq(1 * sim.GHz).Build("CP")
	c.Driver = a.ports["Driver"]
	c.CUs = []sim.RemotePort{a.ports["CU"].AsRemote()}
	c.AddressTranslators = []sim.Port{a.ports["AT"]}
	c.L2Caches = []sim.Port{a.ports["L2"]}
	c.TLBs = []sim.Port{a.ports["TLB"]}
	c.RDMA = a.ports["RDMA"]
	c.PMC = a.ports["PMC"]

	conn := directconnection.MakeBuilder().
		WithEngine(engine).WithFreq(1 * sim.GHz).Build("Conn")
	for _, n := range a.order {
		conn.PlugIn(a.ports[n])
	}
	conn.PlugIn(c.ToDriver)
	conn.PlugIn(c.ToCUs)
	conn.PlugIn(c.ToAddressTranslators)
	conn.PlugIn(c.ToCaches)
	conn.PlugIn(c.ToTLBs)
	conn.PlugIn(c.ToRDMA)
	conn.PlugIn(c.ToPMC)
	conn.PlugIn(c.ToDMA)

	return &bench{engine: engine, cp: c, a: a}
}

func (b *bench) run(t *testing.T) {
	t.Helper()
	if err := b.engine.Run(); err != nil {
		t.Fatal(err)
	}
}

func types(ms []sim.Msg) string {
	s := "["
	for i, m := range ms {
		if i > 0 {
			s += ", "
		}
		s += reflect.TypeOf(m).String()
	}
	return s + "]"
}

func (b *bench) ackCacheFlush(req sim.Msg) {
	b.a.send("L2", cache.FlushRspBuilder{}.
		WithSrc(b.a.ports["L2"].AsRemote()).
		WithDst(b.cp.ToCaches.AsRemote()).
		WithRspTo(req.Meta().ID).Build())
}

// A cache flush asked for by the driver (it precedes every device-to-host copy
// of a dirty buffer) that reaches the GPU while that GPU is in the CU-flush
// phase of a shootdown is never answered: the copy command, and the
// application thread waiting for it, hang forever.
func TestFlushReqArrivingDuringShootdownIsAnswered(t *testing.T) {
	b := newBench()
	a := b.a

	// 1. migration handshake reaches this GPU: shootdown
	shoot := protocol.NewShootdownCommand(
		a.ports["Driver"], b.cp.ToDriver, []uint64{0x1000}, 1)
	a.send("Driver", shoot)
	b.run(t)

	cuReqs := a.take("CU")
	if len(cuReqs) != 1 {
		t.Fatalf("setup: expected one CU pipeline flush request, got %s",
			types(cuReqs))
	}

	// 2. while the CU drains, a driver cache flush arrives
	flush := protocol.NewFlushReq(a.ports["Driver"], b.cp.ToDriver)
	a.send("Driver", flush)
	b.run(t)

	regularFlushes := a.take("L2")
	t.Logf("after FlushReq the L2 received %s", types(regularFlushes))

	// 3. CU flushed -> address translator flush -> caches flush+invalidate
	a.send("CU", protocol.CUPipelineFlushRspBuilder{}.
		WithSrc(a.ports["CU"].AsRemote()).
		WithDst(b.cp.ToCUs.AsRemote()).Build())
	b.run(t)

	atReqs := a.take("AT")
	if len(atReqs) != 1 {
		t.Fatalf("setup: expected one address translator flush, got %s",
			types(atReqs))
	}
	a.send("AT", mem.ControlMsgBuilder{}.
		WithSrc(a.ports["AT"].AsRemote()).
		WithDst(b.cp.ToAddressTranslators.AsRemote()).
		ToNotifyDone().Build())
	b.run(t)

	shootdownFlushes := a.take("L2")
	t.Logf("shootdown sent the L2 %s", types(shootdownFlushes))

	// 4. the L2 acknowledges every flush it was sent
	for _, r := range append(regularFlushes, shootdownFlushes...) {
		b.ackCacheFlush(r)
	}
	b.run(t)

	// 5. TLB flush finishes the shootdown
	for _, r := range a.take("TLB") {
		_ = r
		a.send("TLB", tlb.FlushRspBuilder{}.
			WithSrc(a.ports["TLB"].AsRemote()).
			WithDst(b.cp.ToTLBs.AsRemote()).Build())
	}
	b.run(t)

	toDriver := a.take("Driver")
	t.Logf("driver received %s", types(toDriver))

	flushAnswers := 0
	shootdownAnswers := 0
	for _, m := range toDriver {
		switch m := m.(type) {
		case *sim.GeneralRsp:
			if m.OriginalReq == flush {
				flushAnswers++
			}
		case *protocol.ShootDownCompleteRsp:
			shootdownAnswers++
		}
	}

	if shootdownAnswers != 1 {
		t.Errorf("the shootdown must be answered exactly once, got %d answers",
			shootdownAnswers)
	}
	if flushAnswers != 1 {
		t.Errorf("C19: a request that arrives while a migration is in "+
			"progress must be served, none may be lost: the driver's FlushReq "+
			"arrived during the shootdown, every cache flush it caused was "+
			"acknowledged by the L2, and the shootdown completed, but the "+
			"FlushReq got %d answers (want 1); driver received %s",
			flushAnswers, types(toDriver))
	}
}

// The other interleaving: the driver's cache flush is in flight when the
// shootdown command arrives. The acknowledgement of the ORDINARY flush (which
// neither invalidates nor pauses the cache) is taken for the completion of the
// shootdown's cache flush: the TLBs are flushed and ShootDownCompleteRsp is
// sent although the CUs have not acknowledged the pipeline flush and no
// flush-and-invalidate was ever sent to the caches. The driver then starts
// copying the page from DRAM while CUs and caches of the host GPU are live.
func TestShootdownCompletesOnlyAfterCUsAndCachesWereFlushed(t *testing.T) {
	b := newBench()
	a := b.a

	flush := protocol.NewFlushReq(a.ports["Driver"], b.cp.ToDriver)
	a.send("Driver", flush)
	b.run(t)

	regularFlushes := a.take("L2")
	if len(regularFlushes) != 1 {
		t.Fatalf("setup: expected one cache flush, got %s",
			types(regularFlushes))
	}
	if rf := regularFlushes[0].(*cache.FlushReq); rf.InvalidateAllCachelines ||
		rf.PauseAfterFlushing {
		t.Fatalf("setup: the ordinary flush is expected to be a plain flush")
	}

	shoot := protocol.NewShootdownCommand(
		a.ports["Driver"], b.cp.ToDriver, []uint64{0x1000}, 1)
	a.send("Driver", shoot)
	b.run(t)

	if n := len(a.take("CU")); n != 1 {
		t.Fatalf("setup: expected one CU pipeline flush request, got %d", n)
	}

	// The ordinary flush finishes. The CU has NOT answered yet.
	b.ackCacheFlush(regularFlushes[0])
	b.run(t)

	tlbReqs := a.take("TLB")
	toDriver := a.take("Driver")
	t.Logf("after the ordinary flush was acknowledged: TLB received %s, "+
		"driver received %s", types(tlbReqs), types(toDriver))

	flushAnswers := 0
	for _, m := range toDriver {
		if r, ok := m.(*sim.GeneralRsp); ok && r.OriginalReq == flush {
			flushAnswers++
		}
	}
	if flushAnswers != 1 {
		t.Errorf("C19: requests overlapping a migration must be served: the "+
			"driver's FlushReq was fully acknowledged by the cache but got "+
			"%d answers (want 1)", flushAnswers)
	}

	for range tlbReqs {
		a.send("TLB", tlb.FlushRspBuilder{}.
			WithSrc(a.ports["TLB"].AsRemote()).
			WithDst(b.cp.ToTLBs.AsRemote()).Build())
	}
	b.run(t)

	invalidatingFlushes := 0
	for _, m := range a.take("L2") {
		if f, ok := m.(*cache.FlushReq); ok && f.InvalidateAllCachelines {
			invalidatingFlushes++
		}
	}
	for _, m := range a.take("Driver") {
		if _, ok := m.(*protocol.ShootDownCompleteRsp); ok {
			t.Errorf("C19: the page may only be copied after the shootdown "+
				"stopped the CUs and wrote back + invalidated the caches of "+
				"the accessing GPU. ShootDownCompleteRsp was sent to the "+
				"driver while the CU pipeline flush is still unacknowledged "+
				"and %d flush-and-invalidate requests had been sent to the "+
				"caches (want >= 1, acknowledged)", invalidatingFlushes)
		}
	}

	// Finishing the real shootdown steps afterwards dereferences the flush
	// request that was dropped.
	defer func() {
		if r := recover(); r != nil {
			t.Errorf("C19: continuing the shootdown (CU ack, translator ack, "+
				"cache acks) after the mix-up panics in the command "+
				"processor: %v", r)
		}
	}()
	a.send("CU", protocol.CUPipelineFlushRspBuilder{}.
		WithSrc(a.ports["CU"].AsRemote()).
		WithDst(b.cp.ToCUs.AsRemote()).Build())
	b.run(t)
	for range a.take("AT") {
		a.send("AT", mem.ControlMsgBuilder{}.
			WithSrc(a.ports["AT"].AsRemote()).
			WithDst(b.cp.ToAddressTranslators.AsRemote()).
			ToNotifyDone().Build())
	}
	b.run(t)
	for _, r := range a.take("L2") {
		b.ackCacheFlush(r)
	}
	b.run(t)
}

// Third interleaving, the widest window: the shootdown is over, the page is
// being copied (caches paused), and a driver cache flush arrives; then the
// driver restarts the GPU. Flush acknowledgements and restart acknowledgements
// decrement the same counter. Whichever arrives last decides what happens:
// either the GPU restart chain (TLBs, address translators, CUs, GPURestartRsp)
// is never continued, or the FlushReq is never answered.
func TestFlushReqOverlappingGPURestart(t *testing.T) {
	for _, flushAckFirst := range []bool{false, true} {
		name := "restart_ack_first"
		if flushAckFirst {
			name = "flush_ack_first"
		}
		t.Run(name, func(t *testing.T) {
			b := newBench()
			a := b.a

			flush := protocol.NewFlushReq(a.ports["Driver"], b.cp.ToDriver)
			a.send("Driver", flush)
			b.run(t)
			restart := protocol.NewGPURestartReq(
				a.ports["Driver"], b.cp.ToDriver)
			a.send("Driver", restart)
			b.run(t)

			var flushReq, restartReq sim.Msg
			for _, m := range a.take("L2") {
				switch m.(type) {
				case *cache.FlushReq:
					flushReq = m
				case *cache.RestartReq:
					restartReq = m
				}
			}
			if flushReq == nil || restartReq == nil {
				t.Fatalf("setup: L2 should have a flush and a restart request")
			}

			ackRestart := func() {
				a.send("L2", cache.RestartRspBuilder{}.
					WithSrc(a.ports["L2"].AsRemote()).
					WithDst(b.cp.ToCaches.AsRemote()).
					WithRspTo(restartReq.Meta().ID).Build())
				b.run(t)
			}
			if flushAckFirst {
				b.ackCacheFlush(flushReq)
				b.run(t)
				ackRestart()
			} else {
				ackRestart()
				b.ackCacheFlush(flushReq)
				b.run(t)
			}

			// play the rest of the restart chain
			for range a.take("TLB") {
				a.send("TLB", tlb.RestartRspBuilder{}.
					WithSrc(a.ports["TLB"].AsRemote()).
					WithDst(b.cp.ToTLBs.AsRemote()).Build())
			}
			b.run(t)
			for range a.take("AT") {
				a.send("AT", mem.ControlMsgBuilder{}.
					WithSrc(a.ports["AT"].AsRemote()).
					WithDst(b.cp.ToAddressTranslators.AsRemote()).
					ToNotifyDone().Build())
			}
			b.run(t)
			for range a.take("CU") {
				a.send("CU", protocol.CUPipelineRestartRspBuilder{}.
					WithSrc(a.ports["CU"].AsRemote()).
					WithDst(b.cp.ToCUs.AsRemote()).Build())
			}
			b.run(t)

			toDriver := a.take("Driver")
			flushAnswers, restartAnswers := 0, 0
			for _, m := range toDriver {
				switch m := m.(type) {
				case *sim.GeneralRsp:
					if m.OriginalReq == flush {
						flushAnswers++
					}
				case *protocol.GPURestartRsp:
					restartAnswers++
				}
			}
			if flushAnswers != 1 || restartAnswers != 1 {
				t.Errorf("C19: the restart step of the migration handshake "+
					"completes exactly once and a request that overlaps the "+
					"migration is served, none is lost. The cache acknowledged "+
					"both the flush and the restart, but the driver received "+
					"%d answers to its FlushReq (want 1) and %d GPURestartRsp "+
					"(want 1); driver received %s",
					flushAnswers, restartAnswers, types(toDriver))
			}
		})
	}
}
