// Run from the worktree root (/tmp/audit/C19):
//
//	export PATH=/opt/veriftools/go1.26.8/bin:$PATH GOTOOLCHAIN=local GOFLAGS=-mod=mod GOPROXY=off GOSUMDB=off
//	go test ./c19demo/driver_shootdown_ack_stall/ -count=1 -v
//
// Property C19: a page migration reports completion exactly once and the page
// table maps the page to the destination device afterwards, for all schedules.
//
// Driver.processShootdownCompleteRsp consumes a ShootDownCompleteRsp from the
// GPU port but returns false ("no progress") unless it was the last one it
// waits for. Driver.Tick then reports no progress, the ticking component goes
// to sleep, and a port only wakes its component when a message arrives in an
// EMPTY buffer. When the page was accessed by two GPUs and their two
// ShootDownCompleteRsp are both in the port's buffer when the driver ticks,
// the second one is never looked at: the migration never starts, the MMU never
// gets its answer.
//
// The test also runs the same handshake with the two acknowledgements one
// cycle apart to show that the harness itself completes a migration.
package driver_shootdown_ack_stall

import (
	"reflect"
	"testing"

	"github.com/sarchlab/akita/v4/mem/mem"
	"github.com/sarchlab/akita/v4/mem/vm"
	"github.com/sarchlab/akita/v4/sim"
	"github.com/sarchlab/akita/v4/sim/directconnection"
	"github.com/sarchlab/mgpusim/v4/amd/driver"
	"github.com/sarchlab/mgpusim/v4/amd/protocol"
)

const log2PageSize = 12

// recordingPageTable lets the test learn the PID the driver gave its context.
type recordingPageTable struct {
	vm.PageTable
	inserted []vm.Page
}

func (r *recordingPageTable) Insert(p vm.Page) {
	r.inserted = append(r.inserted, p)
	r.PageTable.Insert(p)
}

// agent plays the command processors of the GPUs and the MMU.
type agent struct {
	*sim.TickingComponent
	names []string
	ports map[string]sim.Port
	recvd map[string][]sim.Msg
	toSnd map[string][]sim.Msg
}

func newAgent(engine sim.Engine, names ...string) *agent {
	a := &agent{
		names: names,
		ports: map[string]sim.Port{},
		recvd: map[string][]sim.Msg{},
		toSnd: map[string][]sim.Msg{},
	}
	a.TickingComponent = sim.NewTickingComponent("Agent", engine, 1*sim.GHz, a)
	for _, n := range names {
		p := sim.NewPort(a, 64, 64, "Agent."+n)
		a.AddPort(n, p)
		a.ports[n] = p
	}
	return a
}

func (a *agent) Tick() bool {
	progress := false
	for _, n := range a.names {
		p := a.ports[n]
		for {
			m := p.RetrieveIncoming()
			if m == nil {
				break
			}
			a.recvd[n] = append(a.recvd[n], m)
			progress = true
		}
		for len(a.toSnd[n]) > 0 {
			if err := p.Send(a.toSnd[n][0]); err != nil {
				break
			}
			a.toSnd[n] = a.toSnd[n][1:]
			progress = true
		}
	}
	return progress
}

func (a *agent) send(port string, m sim.Msg) {
	a.toSnd[port] = append(a.toSnd[port], m)
	a.TickLater()
}

func (a *agent) take(port string) []sim.Msg {
	r := a.recvd[port]
	a.recvd[port] = nil
	return r
}

type bench struct {
	t      *testing.T
	engine sim.Engine
	d      *driver.Driver
	a      *agent
	pt     *recordingPageTable
	gpu    sim.Port
	mmu    sim.Port
}

var gpuNames = []string{"GPU1", "GPU2", "GPU3"}

func newBench(t *testing.T) *bench {
	engine := sim.NewSerialEngine()
	pt := &recordingPageTable{PageTable: vm.NewPageTable(log2PageSize)}
	d := driver.MakeBuilder().
		WithEngine(engine).
		WithLog2PageSize(log2PageSize).
		WithPageTable(pt).
		WithGlobalStorage(mem.NewStorage(1 << 30)).
		Build("Driver")

	a := newAgent(engine, "GPU1", "GPU2", "GPU3", "MMU",
		"PMC1", "PMC2", "PMC3")
	for _, n := range gpuNames {
		d.RegisterGPU(a.ports[n],
			driver.DeviceProperties{CUCount: 4, DRAMSize: 1 << 24})
	}
	d.RemotePMCPorts = []sim.Port{
		a.ports["PMC1"], a.ports["PMC2"], a.ports["PMC3"]}

	conn := directconnection.MakeBuilder().
		WithEngine(engine).WithFreq(1 * sim.GHz).Build("Conn")
	for _, n := range a.names {
		conn.PlugIn(a.ports[n])
	}
	gpu := d.GetPortByName("GPU")
	mmu := d.GetPortByName("MMU")
	conn.PlugIn(gpu)
	conn.PlugIn(mmu)

	return &bench{t: t, engine: engine, d: d, a: a, pt: pt, gpu: gpu, mmu: mmu}
}

func (b *bench) run() {
	b.t.Helper()
	if err := b.engine.Run(); err != nil {
		b.t.Fatal(err)
	}
}

func types(ms []sim.Msg) string {
	s := "["
	for i, m := range ms {
		if i > 0 {
			s += ", "
		}
		s += reflect.TypeOf(m).String()
	}
	return s + "]"
}

// migrate drives one migration of a page hosted on GPU 1, accessed by GPU 1
// and GPU 2, requested by GPU 3. sameCycle tells whether the two
// ShootDownCompleteRsp messages reach the driver in the same cycle.
func migrate(t *testing.T, sameCycle bool) (completions int, page vm.Page) {
	b := newBench(t)
	a := b.a

	ctx := b.d.Init()
	ptr := uint64(b.d.AllocateUnifiedMemory(ctx, 1<<log2PageSize))
	pid := b.pt.inserted[len(b.pt.inserted)-1].PID

	before, _ := b.pt.Find(pid, ptr)
	if before.DeviceID != 1 {
		t.Fatalf("setup: page expected on GPU 1, is on %d", before.DeviceID)
	}

	req := vm.NewPageMigrationReqToDriver(a.ports["MMU"].AsRemote(),
		b.mmu.AsRemote())
	req.ID = sim.GetIDGenerator().Generate()
	req.PID = pid
	req.PageSize = 1 << log2PageSize
	req.CurrPageHostGPU = 1
	req.CurrAccessingGPUs = []uint64{1, 2}
	req.MigrationInfo = &vm.PageMigrationInfo{
		GPUReqToVAddrMap: map[uint64][]uint64{3: {ptr}},
	}
	req.RespondToTop = true
	a.send("MMU", req)
	b.run()

	// RDMA drain on every GPU
	for _, n := range gpuNames {
		got := a.take(n)
		if len(got) != 1 {
			t.Fatalf("setup: %s expected one RDMA drain command, got %s",
				n, types(got))
		}
		if _, ok := got[0].(*protocol.RDMADrainCmdFromDriver); !ok {
			t.Fatalf("setup: %s expected RDMA drain, got %s", n, types(got))
		}
		a.send(n, protocol.NewRDMADrainRspToDriver(a.ports[n], b.gpu))
		b.run()
	}

	// shootdown on the two accessing GPUs
	for _, n := range []string{"GPU1", "GPU2"} {
		got := a.take(n)
		if len(got) != 1 {
			t.Fatalf("setup: %s expected one shootdown command, got %s",
				n, types(got))
		}
		if _, ok := got[0].(*protocol.ShootDownCommand); !ok {
			t.Fatalf("setup: %s expected shootdown, got %s", n, types(got))
		}
	}

	if sameCycle {
		// both GPUs finish their shootdown in the same cycle
		a.send("GPU1", protocol.NewShootdownCompleteRsp(a.ports["GPU1"], b.gpu))
		a.send("GPU2", protocol.NewShootdownCompleteRsp(a.ports["GPU2"], b.gpu))
		b.run()
	} else {
		a.send("GPU1", protocol.NewShootdownCompleteRsp(a.ports["GPU1"], b.gpu))
		b.run()
		a.send("GPU2", protocol.NewShootdownCompleteRsp(a.ports["GPU2"], b.gpu))
		b.run()
	}

	// the requesting GPU is asked to pull the page
	got := a.take("GPU3")
	if len(got) == 1 {
		if _, ok := got[0].(*protocol.PageMigrationReqToCP); ok {
			a.send("GPU3",
				protocol.NewPageMigrationRspToDriver(a.ports["GPU3"], b.gpu))
			b.run()
		}
	}

	// restart of the accessing GPUs, then of every RDMA engine
	for _, n := range []string{"GPU1", "GPU2"} {
		for _, m := range a.take(n) {
			if _, ok := m.(*protocol.GPURestartReq); ok {
				a.send(n, protocol.NewGPURestartRsp(a.ports[n], b.gpu))
			}
		}
	}
	b.run()
	for _, n := range gpuNames {
		for _, m := range a.take(n) {
			if _, ok := m.(*protocol.RDMARestartCmdFromDriver); ok {
				a.send(n, protocol.NewRDMARestartRspToDriver(a.ports[n], b.gpu))
			}
		}
	}
	b.run()

	for _, m := range a.take("MMU") {
		if _, ok := m.(*vm.PageMigrationRspFromDriver); ok {
			completions++
		}
	}

	if left := b.gpu.PeekIncoming(); left != nil {
		t.Logf("a %s is still sitting unread in the driver's GPU port and "+
			"no event is scheduled any more", reflect.TypeOf(left))
	}

	page, _ = b.pt.Find(pid, ptr)
	return completions, page
}

func TestHarnessCompletesAMigrationWhenAcksAreOneCycleApart(t *testing.T) {
	completions, page := migrate(t, false)
	if completions != 1 || page.DeviceID != 3 {
		t.Fatalf("harness problem: completions=%d, page on device %d",
			completions, page.DeviceID)
	}
}

func TestMigrationCompletesWhenBothShootdownAcksArriveTogether(t *testing.T) {
	completions, page := migrate(t, true)
	if completions != 1 {
		t.Errorf("C19: a migration reports completion exactly once, for "+
			"every schedule. With the ShootDownCompleteRsp of the two "+
			"accessing GPUs arriving in the same cycle the MMU received %d "+
			"PageMigrationRspFromDriver (want 1): the driver consumed the "+
			"first acknowledgement, reported no progress, and went to sleep "+
			"with the second one still in its port", completions)
	}
	if page.DeviceID != 3 {
		t.Errorf("C19: after the migration the page table must map the page "+
			"to the destination device 3; it maps it to device %d",
			page.DeviceID)
	}
}
