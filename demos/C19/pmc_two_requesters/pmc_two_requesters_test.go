// Run from the worktree root (/tmp/audit/C19):
//
//	export PATH=/opt/veriftools/go1.26.8/bin:$PATH GOTOOLCHAIN=local GOFLAGS=-mod=mod GOPROXY=off GOSUMDB=off
//	go test ./c19demo/pmc_two_requesters/ -count=1 -v
//
// Component-level harness: N page migration controllers, each with its own
// ideal memory controller, one direct connection between the remote ports.
//
// Property C19: forall pairs of GPUs and forall sequences of migration
// requests, the page contents arrive unchanged at the destination and
// completion is reported exactly once.
//
// TestSingleAndQueuedMigrations and TestBidirectionalConcurrentMigrations PASS
// (they show the harness works and document what was checked: several page
// sizes and memory latencies, three requests queued on one controller, and two
// controllers pulling from each other at the same time).
//
// TestTwoRequestersOneSource FAILS: the controller that serves pull requests
// remembers only ONE requester (requestingPMCtrlPort, overwritten by every
// DataPullReq in handleDataPullReq) and addresses every DataPullRsp to it.
// When two controllers pull from the same source at the same time, chunks
// requested by the first are sent to the second, which panics ("We do not know
// where the mem controller should write"); the first never completes.
// Today the driver sends one PageMigrationReqToCP at a time
// (isCurrentlyMigratingOnePage), so this needs a second initiator to be reached
// in a full system.
package pmc_two_requesters

import (
	"bytes"
	"fmt"
	"math/rand"
	"reflect"
	"testing"

	"github.com/sarchlab/akita/v4/mem/idealmemcontroller"
	"github.com/sarchlab/akita/v4/mem/mem"
	"github.com/sarchlab/akita/v4/sim"
	"github.com/sarchlab/akita/v4/sim/directconnection"
	pmcpkg "github.com/sarchlab/mgpusim/v4/amd/timing/pagemigrationcontroller"
)

type agent struct {
	*sim.TickingComponent
	names []string
	ports map[string]sim.Port
	recvd map[string][]sim.Msg
	toSnd map[string][]sim.Msg
}

func newAgent(engine sim.Engine, names ...string) *agent {
	a := &agent{
		names: names,
		ports: map[string]sim.Port{},
		recvd: map[string][]sim.Msg{},
		toSnd: map[string][]sim.Msg{},
	}
	a.TickingComponent = sim.NewTickingComponent("Agent", engine, 1*sim.GHz, a)
	for _, n := range names {
		p := sim.NewPort(a, 64, 64, "Agent."+n)
		a.AddPort(n, p)
		a.ports[n] = p
	}
	return a
}

func (a *agent) Tick() bool {
	progress := false
	for _, n := range a.names {
		p := a.ports[n]
		for {
			m := p.RetrieveIncoming()
			if m == nil {
				break
			}
			a.recvd[n] = append(a.recvd[n], m)
			progress = true
		}
		for len(a.toSnd[n]) > 0 {
			if err := p.Send(a.toSnd[n][0]); err != nil {
				break
			}
			a.toSnd[n] = a.toSnd[n][1:]
			progress = true
		}
	}
	return progress
}

func (a *agent) send(port string, m sim.Msg) {
	a.toSnd[port] = append(a.toSnd[port], m)
	a.TickLater()
}

const memSize = 1 << 20

type gpu struct {
	pmc  *pmcpkg.PageMigrationController
	mem  *idealmemcontroller.Comp
	base uint64
}

type bench struct {
	engine sim.Engine
	a      *agent
	gpus   []*gpu
}

func newBench(n int, memLatency int) *bench {
	engine := sim.NewSerialEngine()
	names := []string{}
	for i := 0; i < n; i++ {
		names = append(names, fmt.Sprintf("CP%d", i))
	}
	b := &bench{engine: engine, a: newAgent(engine, names...)}

	remote := directconnection.MakeBuilder().
		WithEngine(engine).WithFreq(1 * sim.GHz).Build("RemoteConn")

	for i := 0; i < n; i++ {
		base := uint64(i) * memSize
		m := idealmemcontroller.MakeBuilder().
			WithEngine(engine).
			WithFreq(1 * sim.GHz).
			WithLatency(memLatency).
			WithTopBufSize(2).
			WithNewStorage(memSize).
			WithAddressConverter(offsetConverter{base}).
			Build(fmt.Sprintf("DRAM%d", i))
		p := pmcpkg.NewPageMigrationController(
			fmt.Sprintf("PMC%d", i), engine,
			&mem.SinglePortMapper{Port: m.GetPortByName("Top").AsRemote()},
			nil)

		local := directconnection.MakeBuilder().
			WithEngine(engine).WithFreq(1 * sim.GHz).
			Build(fmt.Sprintf("LocalConn%d", i))
		local.PlugIn(p.GetPortByName("LocalMem"))
		local.PlugIn(m.GetPortByName("Top"))
		local.PlugIn(p.GetPortByName("Control"))
		local.PlugIn(b.a.ports[names[i]])
		remote.PlugIn(p.GetPortByName("Remote"))

		b.gpus = append(b.gpus, &gpu{pmc: p, mem: m, base: base})
	}

	return b
}

type offsetConverter struct{ base uint64 }

func (c offsetConverter) ConvertExternalToInternal(a uint64) uint64 {
	return a - c.base
}
func (c offsetConverter) ConvertInternalToExternal(a uint64) uint64 {
	return a + c.base
}

func (b *bench) fillRandom(r *rand.Rand) [][]byte {
	snap := make([][]byte, len(b.gpus))
	for i, g := range b.gpus {
		data := make([]byte, memSize)
		r.Read(data)
		if err := g.mem.Storage.Write(0, data); err != nil {
			panic(err)
		}
		snap[i] = data
	}
	return snap
}

func (b *bench) dump(i int) []byte {
	d, err := b.gpus[i].mem.Storage.Read(0, memSize)
	if err != nil {
		panic(err)
	}
	return d
}

// request asks PMC dst to pull pageSize bytes at offset srcOff of GPU src into
// offset dstOff of GPU dst.
func (b *bench) request(dst, src int, srcOff, dstOff, pageSize uint64) {
	cp := fmt.Sprintf("CP%d", dst)
	req := pmcpkg.PageMigrationReqToPMCBuilder{}.
		WithSrc(b.a.ports[cp].AsRemote()).
		WithDst(b.gpus[dst].pmc.GetPortByName("Control").AsRemote()).
		WithPageSize(pageSize).
		WithPMCPortOfRemoteGPU(
			b.gpus[src].pmc.GetPortByName("Remote").AsRemote()).
		WithReadFrom(b.gpus[src].base + srcOff).
		WithWriteTo(b.gpus[dst].base + dstOff).
		Build()
	b.a.send(cp, req)
}

func (b *bench) completions(i int) int {
	n := 0
	for _, m := range b.a.recvd[fmt.Sprintf("CP%d", i)] {
		if _, ok := m.(*pmcpkg.PageMigrationRspFromPMC); ok {
			n++
		} else {
			panic(reflect.TypeOf(m).String())
		}
	}
	return n
}

type move struct {
	dst, src       int
	srcOff, dstOff uint64
	size           uint64
}

func check(t *testing.T, b *bench, before [][]byte, moves []move) {
	t.Helper()
	want := make([][]byte, len(before))
	for i := range before {
		want[i] = append([]byte(nil), before[i]...)
	}
	perDst := map[int]int{}
	for _, m := range moves {
		copy(want[m.dst][m.dstOff:m.dstOff+m.size],
			before[m.src][m.srcOff:m.srcOff+m.size])
		perDst[m.dst]++
	}
	for i := range b.gpus {
		got := b.dump(i)
		if !bytes.Equal(got, want[i]) {
			first := -1
			cnt := 0
			for k := range got {
				if got[k] != want[i][k] {
					if first < 0 {
						first = k
					}
					cnt++
				}
			}
			t.Errorf("C19: migrating a page copies its contents unchanged "+
				"and changes nothing else; memory of GPU %d differs from the "+
				"expected image in %d bytes, first at offset %#x", i, cnt,
				first)
		}
		if got := b.completions(i); got != perDst[i] {
			t.Errorf("C19: completion is reported exactly once per "+
				"migration; CP %d asked for %d migrations and got %d "+
				"completions", i, perDst[i], got)
		}
	}
}

func TestSingleAndQueuedMigrations(t *testing.T) {
	for _, lat := range []int{1, 7, 100} {
		for _, size := range []uint64{64, 4096, 65536} {
			b := newBench(2, lat)
			before := b.fillRandom(rand.New(rand.NewSource(int64(lat) + int64(size))))
			moves := []move{
				{dst: 0, src: 1, srcOff: 0x20000, dstOff: 0x40000, size: size},
				{dst: 0, src: 1, srcOff: 0x60000, dstOff: 0x10000, size: size},
				{dst: 0, src: 1, srcOff: 0x0, dstOff: 0x80000, size: size},
			}
			for _, m := range moves {
				b.request(m.dst, m.src, m.srcOff, m.dstOff, m.size)
			}
			if err := b.engine.Run(); err != nil {
				t.Fatal(err)
			}
			check(t, b, before, moves)
		}
	}
}

func TestBidirectionalConcurrentMigrations(t *testing.T) {
	b := newBench(2, 5)
	before := b.fillRandom(rand.New(rand.NewSource(3)))
	moves := []move{
		{dst: 0, src: 1, srcOff: 0x20000, dstOff: 0x40000, size: 4096},
		{dst: 1, src: 0, srcOff: 0x60000, dstOff: 0x10000, size: 4096},
	}
	for _, m := range moves {
		b.request(m.dst, m.src, m.srcOff, m.dstOff, m.size)
	}
	if err := b.engine.Run(); err != nil {
		t.Fatal(err)
	}
	check(t, b, before, moves)
}

func TestTwoRequestersOneSource(t *testing.T) {
	defer func() {
		if r := recover(); r != nil {
			t.Errorf("C19: GPU 0 and GPU 1 each pull one page from GPU 2 at "+
				"the same time; both pages must arrive unchanged and each "+
				"requester must get exactly one completion. Instead the "+
				"source addressed a chunk to the wrong requester and the "+
				"simulation panicked: %v", r)
		}
	}()
	b := newBench(3, 5)
	before := b.fillRandom(rand.New(rand.NewSource(4)))
	moves := []move{
		{dst: 0, src: 2, srcOff: 0x20000, dstOff: 0x40000, size: 4096},
		{dst: 1, src: 2, srcOff: 0x60000, dstOff: 0x10000, size: 4096},
	}
	for _, m := range moves {
		b.request(m.dst, m.src, m.srcOff, m.dstOff, m.size)
	}
	if err := b.engine.Run(); err != nil {
		t.Fatal(err)
	}
	check(t, b, before, moves)
}
