// Demonstration for finding F1 (C05): the simulated time at which the driver
// starts a command depends on a race between the application thread and the
// engine thread.
//
// Run from the worktree root (each test is independent):
//
//   export PATH=/opt/veriftools/go1.26.8/bin:$PATH GOTOOLCHAIN=local GOFLAGS=-mod=mod GOPROXY=off GOSUMDB=off
//   go test -count=1 -v -run TestDelayedEngineThreadChangesSimulatedTime ./AUDIT/demo/backtoback/
//   go test -count=1 -v -run TestBackToBackCopiesNaturalSchedule         ./AUDIT/demo/backtoback/
//
// The first test forces the losing side of the race by delaying the engine
// thread (what a host does when it deschedules a thread) and fails every time.
// The second test does not interfere at all; it fails whenever the host happens
// to schedule the two threads the "other" way at least once in a few thousand
// API calls (observed in practically every execution on a multi-core host).
package backtoback

import (
	"flag"
	"fmt"
	"sort"
	"sync/atomic"
	"testing"
	"time"

	"github.com/sarchlab/akita/v4/sim"
	"github.com/sarchlab/akita/v4/tracing"
	"github.com/sarchlab/mgpusim/v4/amd/driver"
	"github.com/sarchlab/mgpusim/v4/amd/samples/runner"
)

// cmdTimes records, on the engine thread, when driver commands start and end.
type cmdTimes struct {
	eng     sim.Engine
	started map[string]bool
	starts  []sim.VTimeInSec
	ends    []sim.VTimeInSec

	justCompleted atomic.Bool
}

func (t *cmdTimes) StartTask(task tracing.Task) {
	if task.Kind != "Driver Command" {
		return
	}
	t.started[task.ID] = true
	t.starts = append(t.starts, t.eng.CurrentTime())
}
func (t *cmdTimes) StepTask(tracing.Task)          {}
func (t *cmdTimes) AddMilestone(tracing.Milestone) {}
func (t *cmdTimes) EndTask(task tracing.Task) {
	if !t.started[task.ID] {
		return
	}
	delete(t.started, task.ID)
	t.ends = append(t.ends, t.eng.CurrentTime())
	t.justCompleted.Store(true)
}

// copies is a single-threaded application: n synchronous host-to-device copies.
type copies struct {
	d   *driver.Driver
	ctx *driver.Context
	n   int

	enqueued atomic.Int64 // number of commands the application has enqueued
}

func (b *copies) SelectGPU([]int)   {}
func (b *copies) SetUnifiedMemory() {}
func (b *copies) Verify()           {}
func (b *copies) Run() {
	b.d.SelectGPU(b.ctx, 1)
	data := make([]byte, 64)
	buf := b.d.AllocateMemory(b.ctx, 64)
	for i := 0; i < b.n; i++ {
		// Exactly what driver.MemCopyH2D does, spelled out so that the test
		// can see the moment the command is in the queue.
		q := b.d.CreateCommandQueue(b.ctx)
		b.d.EnqueueMemCopyH2D(q, buf, data)
		b.enqueued.Add(1)
		b.d.DrainCommandQueue(q)
	}
}

// delayEngine emulates a host that deschedules the engine thread right after a
// command completed: before the next event of the driver is handled, the
// engine thread is held back until the application thread had time to enqueue
// its next command (bounded wait).
type delayEngine struct {
	drv   *driver.Driver
	tr    *cmdTimes
	app   *copies
	total int
}

func (h *delayEngine) Func(ctx sim.HookCtx) {
	if ctx.Pos != sim.HookPosBeforeEvent {
		return
	}
	evt := ctx.Item.(sim.Event)
	if evt.Handler() != sim.Handler(h.drv.TickingComponent) {
		return
	}
	if !h.tr.justCompleted.Swap(false) {
		return
	}
	done := int64(len(h.tr.ends))
	if done >= int64(h.total) {
		return
	}
	deadline := time.Now().Add(200 * time.Millisecond)
	for h.app.enqueued.Load() <= done && time.Now().Before(deadline) {
		time.Sleep(20 * time.Microsecond)
	}
}

func simulate(n int, delayEngineThread bool) (end sim.VTimeInSec, tr *cmdTimes) {
	r := new(runner.Runner).Init()
	app := &copies{d: r.Driver(), n: n}
	app.ctx = r.Driver().Init()
	r.AddBenchmark(app)

	tr = &cmdTimes{eng: r.Engine(), started: map[string]bool{}}
	tracing.CollectTrace(r.Driver(), tr)

	if delayEngineThread {
		r.Engine().(sim.Hookable).AcceptHook(
			&delayEngine{drv: r.Driver(), tr: tr, app: app, total: n})
	}

	r.Run()
	time.Sleep(20 * time.Millisecond) // let the engine thread finish

	return r.Engine().CurrentTime(), tr
}

func setup() {
	flag.Set("timing", "true")
	flag.Set("disable-rtm", "true")
}

func gaps(tr *cmdTimes) map[int]int {
	hist := map[int]int{}
	for i := 1; i < len(tr.starts) && i-1 < len(tr.ends); i++ {
		g := int((tr.starts[i]-tr.ends[i-1])*1e9 + 0.5)
		hist[g]++
	}
	return hist
}

func histString(h map[int]int) string {
	keys := []int{}
	for k := range h {
		keys = append(keys, k)
	}
	sort.Ints(keys)
	s := ""
	for _, k := range keys {
		s += fmt.Sprintf("[%d ns after the previous command completed: %d commands] ", k, h[k])
	}
	return s
}

// Same program, same inputs, same platform. The only difference between the two
// runs is how long the host keeps the engine thread off the CPU at some points.
func TestDelayedEngineThreadChangesSimulatedTime(t *testing.T) {
	setup()

	const n = 40
	endA, trA := simulate(n, false)
	endB, trB := simulate(n, true)

	t.Logf("undisturbed run : end time %.9f s, command start offsets %s",
		endA, histString(gaps(trA)))
	t.Logf("engine delayed  : end time %.9f s, command start offsets %s",
		endB, histString(gaps(trB)))

	if endA != endB {
		t.Errorf("C05 requires the total simulated time to be identical for "+
			"every host thread schedule (single application thread, serial "+
			"engine); the same %d synchronous MemCopyH2D calls ended at "+
			"%.9f s in one run and at %.9f s in a run where the host merely "+
			"delayed the engine thread (difference %.0f ns)",
			n, endA, endB, float64(endA-endB)*1e9)
	}
}

// No interference at all: within one process, one platform, the distance
// between "command k completed" and "command k+1 started" must be one fixed
// number of cycles. It is not: it depends on whether the application thread
// enqueued command k+1 before or after the driver's next tick.
func TestBackToBackCopiesNaturalSchedule(t *testing.T) {
	setup()

	ends := map[sim.VTimeInSec]int{}
	total := map[int]int{}
	for run := 0; run < 6; run++ {
		end, tr := simulate(1500, false)
		ends[end]++
		for k, v := range gaps(tr) {
			total[k] += v
		}
		t.Logf("run %d: end time %.9f s, start offsets %s",
			run, end, histString(gaps(tr)))
	}

	if len(total) > 1 || len(ends) > 1 {
		t.Errorf("C05 requires identical simulated times in every run; 6 "+
			"identical runs of 1500 synchronous MemCopyH2D calls produced %d "+
			"different end times %v, and commands started at different "+
			"offsets after their predecessor: %s",
			len(ends), ends, histString(total))
	}
}
