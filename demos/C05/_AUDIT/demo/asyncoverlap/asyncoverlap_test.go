// Demonstration for finding F2 (C05): a command that a single-threaded
// application enqueues while another queue is still executing starts at a
// simulated time that is read from the wall-clock progress of the engine.
//
// Run from the worktree root:
//
//   export PATH=/opt/veriftools/go1.26.8/bin:$PATH GOTOOLCHAIN=local GOFLAGS=-mod=mod GOPROXY=off GOSUMDB=off
//   go test -count=1 -v ./AUDIT/demo/asyncoverlap/
package asyncoverlap

import (
	"flag"
	"fmt"
	"testing"
	"time"

	"github.com/sarchlab/akita/v4/sim"
	"github.com/sarchlab/akita/v4/tracing"
	"github.com/sarchlab/mgpusim/v4/amd/driver"
	"github.com/sarchlab/mgpusim/v4/amd/samples/runner"
)

type cmdStart struct {
	what string
	at   sim.VTimeInSec
}

type startRecorder struct {
	eng    sim.Engine
	starts []cmdStart
}

func (t *startRecorder) StartTask(task tracing.Task) {
	if task.Kind == "Driver Command" {
		t.starts = append(t.starts, cmdStart{task.What, t.eng.CurrentTime()})
	}
}
func (t *startRecorder) StepTask(tracing.Task)          {}
func (t *startRecorder) AddMilestone(tracing.Milestone) {}
func (t *startRecorder) EndTask(tracing.Task)           {}

// overlap is a single-threaded application with the classic "launch
// asynchronously, keep the host busy with copies, then synchronise" shape.
type overlap struct {
	d     *driver.Driver
	ctx   *driver.Context
	pause time.Duration // how long the host keeps the application thread busy between API calls
}

func (b *overlap) SelectGPU([]int)   {}
func (b *overlap) SetUnifiedMemory() {}
func (b *overlap) Verify()           {}
func (b *overlap) Run() {
	const big = 128 * 1024
	b.d.SelectGPU(b.ctx, 1)
	src := b.d.AllocateMemory(b.ctx, big)
	dst := b.d.AllocateMemory(b.ctx, big)
	small := b.d.AllocateMemory(b.ctx, 64)
	data := make([]byte, 64)

	q0 := b.d.CreateCommandQueue(b.ctx)
	b.d.EnqueueMemCopyD2D(q0, dst, src, big) // asynchronous device-to-device copy kernel

	for i := 0; i < 6; i++ {
		time.Sleep(b.pause)
		b.d.MemCopyH2D(b.ctx, small, data) // synchronous, on its own queue
	}

	b.d.DrainCommandQueue(q0)
}

func simulate(pause time.Duration) (sim.VTimeInSec, []cmdStart) {
	r := new(runner.Runner).Init()
	app := &overlap{d: r.Driver(), pause: pause}
	app.ctx = r.Driver().Init()
	r.AddBenchmark(app)

	rec := &startRecorder{eng: r.Engine()}
	tracing.CollectTrace(r.Driver(), rec)

	r.Run()
	time.Sleep(20 * time.Millisecond)

	return r.Engine().CurrentTime(), rec.starts
}

func describe(s []cmdStart) string {
	out := ""
	for _, c := range s {
		out += fmt.Sprintf("\n      %-32s starts at %.9f s", c.what, c.at)
	}
	return out
}

func TestCommandStartTimesDoNotDependOnHostTiming(t *testing.T) {
	flag.Set("timing", "true")
	flag.Set("disable-rtm", "true")

	endA, a := simulate(0)
	endB, b := simulate(0)
	endC, c := simulate(3 * time.Millisecond)

	t.Logf("run A (no host delay), end %.9f s:%s", endA, describe(a))
	t.Logf("run B (no host delay), end %.9f s:%s", endB, describe(b))
	t.Logf("run C (application thread delayed 3 ms between calls), end %.9f s:%s",
		endC, describe(c))

	same := func(x, y []cmdStart) bool {
		if len(x) != len(y) {
			return false
		}
		for i := range x {
			if x[i] != y[i] {
				return false
			}
		}
		return true
	}

	if !same(a, b) || endA != endB {
		t.Errorf("C05 requires two runs of the same single-threaded program " +
			"on the same platform to start every driver command at the same " +
			"simulated time and to end at the same simulated time; runs A " +
			"and B are the same program and nothing was perturbed, yet their " +
			"command start times / end times differ (see log above)")
	}
	if !same(a, c) || endA != endC {
		t.Errorf("C05 requires simulated times to be independent of host " +
			"thread scheduling; delaying the application thread by a few " +
			"milliseconds of wall-clock time between API calls moved the " +
			"simulated start times of its copy commands (see log above)")
	}
}
