// CONTROL for the demonstration of finding F4 (C05): benchmarks that call rand.Seed(k) to get
// reproducible inputs do not get them. go.mod says "go 1.25", and from go 1.24
// on math/rand.Seed is a no-op (GODEBUG randseednop=1 is the default), so the
// global generator stays randomly seeded: every run of e.g. the Floyd-Warshall
// sample simulates a different graph and reports different kernel times and
// counters.
//
// Run from the worktree root:
//
//   export PATH=/opt/veriftools/go1.26.8/bin:$PATH GOTOOLCHAIN=local GOFLAGS=-mod=mod GOPROXY=off GOSUMDB=off
//   go test -count=1 -v ./AUDIT/demo/seednoop/
//
// Control (identical test, only a "//go:debug randseednop=0" line added, which
// restores the old meaning of rand.Seed): passes.
//
//   go test -count=1 -v ./AUDIT/demo/seednoop_control/
//go:debug randseednop=0
package seednoop_control

import (
	"flag"
	"testing"
	"time"

	"github.com/sarchlab/akita/v4/sim"
	"github.com/sarchlab/akita/v4/tracing"
	"github.com/sarchlab/mgpusim/v4/amd/benchmarks/amdappsdk/floydwarshall"
	"github.com/sarchlab/mgpusim/v4/amd/samples/runner"
)

// kernelTime runs amd/samples/floydwarshall (default size) on the default
// timing platform and returns what the reporter writes as
// Driver / kernel_time, and the total simulated time.
func kernelTime() (kernel, total sim.VTimeInSec) {
	r := new(runner.Runner).Init()

	b := floydwarshall.NewBenchmark(r.Driver())
	b.NumNodes = 16
	b.Arch = r.ArchType
	r.AddBenchmark(b)

	tracer := tracing.NewBusyTimeTracer(r.Engine(),
		func(task tracing.Task) bool {
			return task.What == "*driver.LaunchKernelCommand"
		})
	tracing.CollectTrace(r.Driver(), tracer)

	r.Run()
	time.Sleep(20 * time.Millisecond)

	return tracer.BusyTime(), r.Engine().CurrentTime()
}

func TestFloydWarshallSampleIsReproducible(t *testing.T) {
	flag.Set("timing", "true")
	flag.Set("disable-rtm", "true")

	k1, t1 := kernelTime()
	k2, t2 := kernelTime()
	k3, t3 := kernelTime()

	t.Logf("run 1: kernel_time %.9f s, total %.9f s", k1, t1)
	t.Logf("run 2: kernel_time %.9f s, total %.9f s", k2, t2)
	t.Logf("run 3: kernel_time %.9f s, total %.9f s", k3, t3)

	if k1 != k2 || k2 != k3 {
		t.Errorf("C05 requires repeating a simulation with the same program "+
			"and configuration to report identical kernel times; the "+
			"Floyd-Warshall sample seeds its input generator with "+
			"rand.Seed(1) in initMem, yet three runs reported kernel_time "+
			"%.9f s, %.9f s and %.9f s (rand.Seed is a no-op for a module "+
			"that declares go >= 1.24, so the inputs differ)", k1, k2, k3)
	}
}
