// Demonstration for finding F5 (C05): Runner.Run reports the metrics and
// returns as soon as the application goroutines are done; nothing waits for the
// engine goroutine to run out of events. "Now" as seen by the reporter
// (CPIStack.total is computed from Engine.CurrentTime()) and by the caller
// (amd/tests/deterministic/memcopy compares runner.Engine().CurrentTime()) is
// therefore whatever event the engine thread happens to have reached.
//
// Run from the worktree root:
//
//   export PATH=/opt/veriftools/go1.26.8/bin:$PATH GOTOOLCHAIN=local GOFLAGS=-mod=mod GOPROXY=off GOSUMDB=off
//   go test -count=1 -v ./AUDIT/demo/earlyreturn/
package earlyreturn

import (
	"flag"
	"sync/atomic"
	"testing"
	"time"

	"github.com/sarchlab/akita/v4/sim"
	"github.com/sarchlab/akita/v4/tracing"
	"github.com/sarchlab/mgpusim/v4/amd/driver"
	"github.com/sarchlab/mgpusim/v4/amd/samples/runner"
)

type app struct {
	d   *driver.Driver
	ctx *driver.Context
}

func (b *app) SelectGPU([]int)   {}
func (b *app) SetUnifiedMemory() {}
func (b *app) Verify()           {}
func (b *app) Run() {
	b.d.SelectGPU(b.ctx, 1)
	data := make([]byte, 64)
	buf := b.d.AllocateMemory(b.ctx, 64)
	b.d.MemCopyH2D(b.ctx, buf, data)
	b.d.MemCopyD2H(b.ctx, data, buf)
}

// completions counts completed driver commands (runs on the engine thread).
type completions struct {
	started map[string]bool
	done    atomic.Int64
}

func (t *completions) StartTask(task tracing.Task) {
	if task.Kind == "Driver Command" {
		t.started[task.ID] = true
	}
}
func (t *completions) StepTask(tracing.Task)          {}
func (t *completions) AddMilestone(tracing.Milestone) {}
func (t *completions) EndTask(task tracing.Task) {
	if t.started[task.ID] {
		t.done.Add(1)
	}
}

// slowEngine emulates a host that does not run the engine thread for a while
// once the last command of the program has completed.
type slowEngine struct {
	c    *completions
	last int64
	once bool
}

func (h *slowEngine) Func(ctx sim.HookCtx) {
	if ctx.Pos == sim.HookPosBeforeEvent && !h.once && h.c.done.Load() == h.last {
		h.once = true
		time.Sleep(1500 * time.Millisecond)
	}
}

func simulate(hostStallsEngine bool) (atReturn, afterEngineIdle sim.VTimeInSec) {
	r := new(runner.Runner).Init()
	a := &app{d: r.Driver()}
	a.ctx = r.Driver().Init()
	r.AddBenchmark(a)

	c := &completions{started: map[string]bool{}}
	tracing.CollectTrace(r.Driver(), c)
	if hostStallsEngine {
		r.Engine().(sim.Hookable).AcceptHook(&slowEngine{c: c, last: 2})
	}

	r.Run()
	atReturn = r.Engine().CurrentTime()

	time.Sleep(2500 * time.Millisecond)
	afterEngineIdle = r.Engine().CurrentTime()

	return atReturn, afterEngineIdle
}

func TestRunReturnsOnlyWhenTheEngineIsIdle(t *testing.T) {
	flag.Set("timing", "true")
	flag.Set("disable-rtm", "true")

	ret1, idle1 := simulate(false)
	ret2, idle2 := simulate(true)

	t.Logf("run 1 (undisturbed)         : time at Run() return %.9f s, once the engine is idle %.9f s", ret1, idle1)
	t.Logf("run 2 (engine thread stalled): time at Run() return %.9f s, once the engine is idle %.9f s", ret2, idle2)

	if ret1 != ret2 {
		t.Errorf("C05 requires Engine.CurrentTime() at the end of a run to be "+
			"identical for every host thread schedule; Runner.Run returned "+
			"with the engine at %.9f s in one run and at %.9f s in a run in "+
			"which the host stalled the engine thread (Run does not wait for "+
			"the engine: in the second run the engine later advanced to %.9f s)",
			ret1, ret2, idle2)
	}
}
