// Second demonstration for finding F5: a row of mgpusim_metrics depends on the
// host schedule. Run from the worktree root:
//
//   export PATH=/opt/veriftools/go1.26.8/bin:$PATH GOTOOLCHAIN=local GOFLAGS=-mod=mod GOPROXY=off GOSUMDB=off
//   go test -count=1 -v -run TestReportedMetricsDoNotDependOnHostSchedule ./AUDIT/demo/earlyreturn/
package earlyreturn

import (
	"database/sql"
	"flag"
	"os"
	"path/filepath"
	"testing"
	"time"

	"github.com/sarchlab/akita/v4/sim"
	"github.com/sarchlab/akita/v4/tracing"
	"github.com/sarchlab/mgpusim/v4/amd/benchmarks/heteromark/fir"
	"github.com/sarchlab/mgpusim/v4/amd/samples/runner"
)

func removeDBs() {
	files, _ := filepath.Glob("akita_sim_*.sqlite3")
	for _, f := range files {
		os.Remove(f)
	}
}

// metricsOfFIR runs amd/samples/fir -timing -report-cpi-stack and returns the
// rows of mgpusim_metrics, as "what@location-id" -> value.
func metricsOfFIR(t *testing.T, stallAfter int64) (map[string]float64, int64) {
	removeDBs()

	r := new(runner.Runner).Init()
	b := fir.NewBenchmark(r.Driver())
	b.Length = 1024
	r.AddBenchmark(b)

	c := &completions{started: map[string]bool{}}
	tracing.CollectTrace(r.Driver(), c)
	if stallAfter > 0 {
		r.Engine().(sim.Hookable).AcceptHook(&slowEngine{c: c, last: stallAfter})
	}

	r.Run()
	time.Sleep(2500 * time.Millisecond)

	files, _ := filepath.Glob("akita_sim_*.sqlite3")
	if len(files) != 1 {
		t.Fatalf("expected one metrics database, found %v", files)
	}
	db, err := sql.Open("sqlite3", files[0])
	if err != nil {
		t.Fatal(err)
	}
	defer db.Close()
	defer removeDBs()

	rows, err := db.Query("SELECT Location, What, Value FROM mgpusim_metrics")
	if err != nil {
		t.Fatal(err)
	}
	defer rows.Close()

	m := map[string]float64{}
	for rows.Next() {
		var loc, what string
		var v sql.NullFloat64 // NaN (CUs that executed nothing) is stored as NULL
		if err := rows.Scan(&loc, &what, &v); err != nil {
			t.Fatal(err)
		}
		if v.Valid {
			m[what+"@"+loc] = v.Float64
		}
	}
	return m, c.done.Load()
}

func TestReportedMetricsDoNotDependOnHostSchedule(t *testing.T) {
	flag.Set("timing", "true")
	flag.Set("disable-rtm", "true")
	flag.Set("report-cpi-stack", "true")

	m1, commands := metricsOfFIR(t, 0)
	m2, _ := metricsOfFIR(t, commands) // host stalls the engine thread after the last command

	if len(m1) == 0 {
		t.Fatal("no metrics were reported")
	}

	diff := 0
	for k, v1 := range m1 {
		if v2, ok := m2[k]; !ok || v1 != v2 {
			if diff < 5 {
				t.Errorf("C05 requires every row of mgpusim_metrics to be "+
					"identical for every host thread schedule; row %q is "+
					"%.12g in an undisturbed run and %.12g in a run in which "+
					"the host stalled the engine thread after the last "+
					"command (the reporter runs while the engine still has "+
					"events)", k, v1, m2[k])
			}
			diff++
		}
	}
	t.Logf("%d of %d reported rows differ", diff, len(m1))
}
