// Demonstration for finding F3 (C05): DrainCommandQueue on a queue that has
// nothing outstanding (a plain "synchronize" call) starts the engine and
// returns at once; the application thread and the freshly started engine
// thread then race, and the command issued next starts one cycle earlier or
// later depending on who wins.
//
// Run from the worktree root:
//
//   export PATH=/opt/veriftools/go1.26.8/bin:$PATH GOTOOLCHAIN=local GOFLAGS=-mod=mod GOPROXY=off GOSUMDB=off
//   go test -count=1 -v -run TestSynchronizeThenCopyDelayedApplicationThread ./AUDIT/demo/emptydrain/
//   go test -count=1 -v -run TestSynchronizeThenCopyNaturalSchedule          ./AUDIT/demo/emptydrain/
//
// The first test makes the application thread lose the race every time (the
// host keeps it off the CPU for a millisecond after the synchronize call
// returned) and fails deterministically. The second test does not interfere
// (8 runs x 1000 iterations, ~45 s); it
// fails whenever the host lets the engine thread win at least once.
package emptydrain

import (
	"flag"
	"testing"
	"time"

	"github.com/sarchlab/akita/v4/sim"
	"github.com/sarchlab/mgpusim/v4/amd/driver"
	"github.com/sarchlab/mgpusim/v4/amd/samples/runner"
)

// app is single threaded: synchronize (nothing is outstanding), then copy.
type app struct {
	d   *driver.Driver
	ctx *driver.Context
	n   int

	// hostDelay is wall-clock time during which the host does not run the
	// application thread after the synchronize call returned. It is not part
	// of the simulated program: no simulated time may depend on it.
	hostDelay time.Duration
}

func (b *app) SelectGPU([]int)   {}
func (b *app) SetUnifiedMemory() {}
func (b *app) Verify()           {}
func (b *app) Run() {
	b.d.SelectGPU(b.ctx, 1)
	data := make([]byte, 64)
	buf := b.d.AllocateMemory(b.ctx, 64)
	idle := b.d.CreateCommandQueue(b.ctx)

	for i := 0; i < b.n; i++ {
		b.d.DrainCommandQueue(idle) // "device synchronize": the queue is empty
		time.Sleep(b.hostDelay)
		b.d.MemCopyH2D(b.ctx, buf, data)
	}
}

func simulate(n int, hostDelay time.Duration) sim.VTimeInSec {
	r := new(runner.Runner).Init()
	a := &app{d: r.Driver(), n: n, hostDelay: hostDelay}
	a.ctx = r.Driver().Init()
	r.AddBenchmark(a)

	r.Run()
	time.Sleep(20 * time.Millisecond) // let the engine thread finish

	return r.Engine().CurrentTime()
}

func setup() {
	flag.Set("timing", "true")
	flag.Set("disable-rtm", "true")
}

func TestSynchronizeThenCopyDelayedApplicationThread(t *testing.T) {
	setup()

	const n = 40
	a := simulate(n, 0)
	b := simulate(n, time.Millisecond)

	if a != b {
		t.Errorf("C05 requires the total simulated time to be identical for "+
			"every host thread schedule; %d x (DrainCommandQueue on an idle "+
			"queue; MemCopyH2D) ended at %.9f s when the application thread "+
			"ran promptly and at %.9f s when the host kept it off the CPU for "+
			"1 ms after each synchronize call (difference %.0f ns of "+
			"simulated time)", n, a, b, float64(b-a)*1e9)
	}
}

func TestSynchronizeThenCopyNaturalSchedule(t *testing.T) {
	setup()

	ends := map[sim.VTimeInSec]int{}
	for run := 0; run < 8; run++ {
		end := simulate(1000, 0)
		ends[end]++
		t.Logf("run %d: end time %.9f s", run, end)
	}

	if len(ends) > 1 {
		t.Errorf("C05 requires identical simulated times in every run; 8 "+
			"unperturbed runs of the same single-threaded program ended at "+
			"%d different simulated times: %v", len(ends), ends)
	}
}
