// Helper for the tests in this directory; run them from the worktree root with
//
//	export PATH=/opt/veriftools/go1.26.8/bin:$PATH GOTOOLCHAIN=local GOFLAGS=-mod=mod GOPROXY=off GOSUMDB=off
//	go test ./c02demo/initial_sgpr_layout/ -count=1 -v

package initial_sgpr_test

// Small end-to-end harness: builds the stock emulation platform or the stock
// timing platform (the same builders the sample runner uses), and launches a
// hand-assembled kernel through the public driver API.

import (
	"encoding/binary"
	"os"
	"testing"

	"github.com/sarchlab/akita/v4/simulation"
	"github.com/sarchlab/mgpusim/v4/amd/arch"
	"github.com/sarchlab/mgpusim/v4/amd/driver"
	"github.com/sarchlab/mgpusim/v4/amd/insts"
	"github.com/sarchlab/mgpusim/v4/amd/samples/runner/emusystem"
	"github.com/sarchlab/mgpusim/v4/amd/samples/runner/timingconfig"
	"github.com/sarchlab/mgpusim/v4/amd/sampling"
)

type platform struct {
	sim *simulation.Simulation
	drv *driver.Driver
}

// mode is "emu", "r9nano" or "mi300a".
func build(mode string, a arch.Type) *platform {
	s := simulation.MakeBuilder().WithoutMonitoring().Build()
	switch mode {
	case "emu":
		emusystem.MakeBuilder().
			WithSimulation(s).WithNumGPUs(1).WithArchitecture(a).Build()
	default:
		sampling.InitSampledEngine()
		timingconfig.MakeBuilder().
			WithSimulation(s).WithNumGPUs(1).WithGPUType(mode).Build()
	}
	d := s.GetComponentByName("Driver").(*driver.Driver)
	d.Run()
	return &platform{sim: s, drv: d}
}

func (p *platform) close() {
	p.drv.Terminate()
	p.sim.Terminate()
}

func words(ws ...uint32) []byte {
	out := make([]byte, 4*len(ws))
	for i, w := range ws {
		binary.LittleEndian.PutUint32(out[4*i:], w)
	}
	return out
}

// codeObject wraps raw machine code into a kernel whose only user SGPRs are
// the kernarg segment pointer in s[0:1].
func codeObject(code []byte, v insts.CodeObjectVersion) *insts.KernelCodeObject {
	meta := &insts.KernelCodeObjectMeta{
		KernargSegmentByteSize:      8,
		EnableSgprKernargSegmentPtr: true,
		WFSgprCount:                 16,
		WIVgprCount:                 8,
	}
	return &insts.KernelCodeObject{KernelCodeObjectMeta: meta, Data: code, Version: v}
}

func TestMain(m *testing.M) {
	tmp, _ := os.MkdirTemp("", "c02demo")
	os.Chdir(tmp) // the simulation drops an sqlite file into the cwd
	code := m.Run()
	os.RemoveAll(tmp)
	os.Exit(code)
}
