// Copy this directory to <tree>/c02demo/<name>/ and run from the tree root:
//
//	export PATH=/opt/veriftools/go1.26.8/bin:$PATH GOTOOLCHAIN=local GOFLAGS=-mod=mod GOPROXY=off GOSUMDB=off
//	go test ./c02demo/initial_sgpr_layout/ -count=1 -v
//
// C02 (mechanism "wavefront initial-register setup mirrored in both modes"):
// emu.ComputeUnit.initWfRegs and cu.WfDispatcherImpl.initRegisters must put
// the same values into the same SGPRs, otherwise the same binary computes
// different things in the two modes.
//
// They disagree for a kernel whose descriptor enables the queue pointer
// (enable_sgpr_queue_ptr, set by the compiler for every GCN3 kernel that uses
// generic/flat addressing of LDS or scratch, device enqueue, ...):
//   - timing: initRegisters reserves two SGPRs for it (SGPRPtr += 8)
//   - emu:    initWfRegs reserves nothing
//
// so everything behind it - the kernarg segment pointer, the work-group ids -
// lives two SGPRs further up in timing mode than in emulation mode. (The same
// split exists for enable_sgpr_private_segment_size: timing += 4, emu += 0.)
//
// The kernel finds its output buffer through the dispatch pointer (s[0:1],
// identical in both modes) and stores s2, s3, s4 and the true kernarg address.
package initial_sgpr_test

import (
	"testing"

	"github.com/sarchlab/mgpusim/v4/amd/arch"
	"github.com/sarchlab/mgpusim/v4/amd/driver"
	"github.com/sarchlab/mgpusim/v4/amd/insts"
)

var kernel = words(
	0xC0060280, 0x00000028, // s_load_dwordx2 s[10:11], s[0:1], 0x28  ; AQL packet.kernarg_address
	0xBF8C007F,             //             s_waitcnt lgkmcnt(0)
	0xC0060305, 0x00000000, // s_load_dwordx2 s[12:13], s[10:11], 0x0 ; args.Out
	0xBF8C007F,             //             s_waitcnt lgkmcnt(0)
	0x7E02020C,             //             v_mov_b32 v1, s12
	0x7E04020D,             //             v_mov_b32 v2, s13
	0x7E060202,             //             v_mov_b32 v3, s2
	0x7E080203,             //             v_mov_b32 v4, s3
	0x7E0A0204,             //             v_mov_b32 v5, s4
	0x7E0C020A,             //             v_mov_b32 v6, s10
	0xDC7C0000, 0x00000301, // flat_store_dwordx4 v[1:2], v[3:6]
	0xBF8C0070, //             s_waitcnt vmcnt(0) lgkmcnt(0)
	0xBF810000, //             s_endpgm
)

type args struct {
	Out driver.Ptr
}

func runKernel(t *testing.T, mode string) []uint32 {
	p := build(mode, arch.GCN3)
	defer p.close()

	ctx := p.drv.Init()
	p.drv.SelectGPU(ctx, 1)
	out := p.drv.AllocateMemory(ctx, 64)
	p.drv.MemCopyH2D(ctx, out, make([]uint32, 16))

	co := codeObject(kernel, insts.CodeObjectV3)
	co.EnableSgprDispatchPtr = true
	co.EnableSgprQueuePtr = true
	co.ComputePgmRsrc2 = 1 << 7 // enable_sgpr_workgroup_id_x
	p.drv.LaunchKernel(ctx, co, [3]uint32{64, 1, 1}, [3]uint16{64, 1, 1}, &args{Out: out})

	res := make([]uint32, 16)
	p.drv.MemCopyD2H(ctx, res, out)
	return res[:4]
}

// where tells which SGPR holds the low half of the kernarg segment pointer.
func where(r []uint32) string {
	switch {
	case r[3] != 0 && r[0] == r[3]:
		return "s2"
	case r[3] != 0 && r[2] == r[3]:
		return "s4"
	}
	return "neither s2 nor s4"
}

func TestDisassembles(t *testing.T) {
	d := insts.NewDisassembler()
	pr := insts.NewInstPrinter(nil)
	for off := 0; off < len(kernel); {
		inst, err := d.Decode(kernel[off:])
		if err != nil {
			t.Fatalf("offset %#x: %v", off, err)
		}
		t.Logf("%#04x  %s", off, pr.Print(inst))
		off += inst.ByteSize
	}
}

func TestQueuePtrShiftsUserSGPRs(t *testing.T) {
	emu := runKernel(t, "emu")
	tim := runKernel(t, "r9nano")
	t.Logf("[s2 s3 s4 kernarg_lo]: emulation %#x, timing %#x", emu, tim)
	if where(emu) != where(tim) {
		t.Errorf("C02 requires both modes to start a wavefront with the same "+
			"register contents; with enable_sgpr_dispatch_ptr, enable_sgpr_queue_ptr "+
			"and enable_sgpr_kernarg_segment_ptr the kernarg segment pointer is in "+
			"%s in emulation mode and in %s in timing mode, so out[] differs: "+
			"emulation %#x, timing %#x", where(emu), where(tim), emu, tim)
	}
}
