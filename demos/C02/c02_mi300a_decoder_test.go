// Package c02decoderdemo: the compute units of the MI300A timing platform decode with the CDNA3 rules,
// like the emulation platform of the same architecture.
//
//	mkdir <tree>/amd/samples/runner/c02decoderdemo && cp c02_mi300a_decoder_test.go <tree>/amd/samples/runner/c02decoderdemo/
//	go test -count=1 -v ./amd/samples/runner/c02decoderdemo/
//
// global_load_dword v1, v0, s[0:1]: SADDR = 0 names s[0:1] on CDNA3 (ADDR is a 32-bit offset register);
// the GCN3 rules take SADDR = 0 as "off" (ADDR is a 64-bit register pair).
package c02decoderdemo

import (
	"encoding/binary"
	"strings"
	"testing"

	"github.com/sarchlab/akita/v4/simulation"
	"github.com/sarchlab/mgpusim/v4/amd/insts"
	"github.com/sarchlab/mgpusim/v4/amd/samples/runner/timingconfig"
	"github.com/sarchlab/mgpusim/v4/amd/sampling"
	"github.com/sarchlab/mgpusim/v4/amd/timing/cu"
)

func TestC02MI300ATimingDecodesLikeCDNA3Emulation(t *testing.T) {
	// FLAT (GLOBAL segment) load dword: OP 20, SEG = 2, ADDR v0, SADDR 0, VDST v1
	word := make([]byte, 8)
	binary.LittleEndian.PutUint32(word, 0xDC000000|20<<18|2<<14)
	binary.LittleEndian.PutUint32(word[4:], 0|0<<16|1<<24)

	ref := insts.NewDisassembler()
	ref.IsCDNA3 = true
	want, err := ref.Decode(word)
	if err != nil {
		t.Fatal(err)
	}

	sampling.InitSampledEngine()
	s := simulation.MakeBuilder().WithoutMonitoring().Build()
	timingconfig.MakeBuilder().WithSimulation(s).WithNumGPUs(1).WithGPUType("mi300a").Build()
	n := 0
	for _, comp := range s.Components() {
		c, ok := comp.(*cu.ComputeUnit)
		if !ok || !strings.Contains(c.Name(), "CU[") {
			continue
		}
		n++
		got, err := c.Decoder.Decode(word)
		if err != nil {
			t.Fatal(err)
		}
		if got.Addr.RegCount != want.Addr.RegCount {
			t.Fatalf("%s decodes the address operand of `global_load_dword v1, v0, s[0:1]` with %d registers; the CDNA3 emulation platform decodes it with %d",
				c.Name(), got.Addr.RegCount, want.Addr.RegCount)
		}
	}
	if n == 0 {
		t.Fatal("no compute unit found")
	}
}
