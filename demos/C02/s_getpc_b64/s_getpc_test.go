// Copy this directory to <tree>/c02demo/<name>/ and run from the tree root:
//
//	export PATH=/opt/veriftools/go1.26.8/bin:$PATH GOTOOLCHAIN=local GOFLAGS=-mod=mod GOPROXY=off GOSUMDB=off
//	go test ./c02demo/s_getpc_b64/ -count=1 -v
//
// C02: the same program must leave the same bytes in every device buffer in
// timing mode and in emulation mode ("one shared ALU for both modes").
//
// s_getpc_b64 is how compiled code addresses constants that live next to the
// code (s_getpc_b64 ; s_load_dword ... PC-relative). The ALU handler reads
// state.PC(): the emulator has already advanced PC past the instruction when
// the ALU runs (emu.ComputeUnit.runWfUntilBarrier), the timing CU advances it
// only afterwards (cu.ComputeUnit.UpdatePCAndSetReady). The shared handler
// therefore returns values 4 bytes apart in the two modes (GCN3: emu = addr+8,
// timing = addr+4; CDNA3: emu = addr+4, timing = addr+0).
//
// The kernel below loads one dword of a table that is embedded behind the
// code, PC-relative, and stores it to out[0].
package s_getpc_test

import (
	"testing"

	"github.com/sarchlab/mgpusim/v4/amd/arch"
	"github.com/sarchlab/mgpusim/v4/amd/driver"
	"github.com/sarchlab/mgpusim/v4/amd/insts"
)

var kernel = words(
	/*0x00*/ 0xC0060080, 0x00000000, // s_load_dwordx2 s[2:3], s[0:1], 0x0   (out pointer)
	/*0x08*/ 0xBE841C00, //             s_getpc_b64 s[4:5]       ; architecturally base+0x0c
	/*0x0c*/ 0xC0020182, 0x00000034, // s_load_dword s6, s[4:5], 0x34        ; -> base+0x40 = table[0]
	/*0x14*/ 0xBF8C007F, //             s_waitcnt lgkmcnt(0)
	/*0x18*/ 0x7E020202, //             v_mov_b32 v1, s2
	/*0x1c*/ 0x7E040203, //             v_mov_b32 v2, s3
	/*0x20*/ 0x7E060206, //             v_mov_b32 v3, s6
	/*0x24*/ 0xDC700000, 0x00000301, // flat_store_dword v[1:2], v3
	/*0x2c*/ 0xBF8C0070, //             s_waitcnt vmcnt(0) lgkmcnt(0)
	/*0x30*/ 0xBF810000, //             s_endpgm
	/*0x34*/ 0xBF800000, 0xBF800000, 0xBF800000, // s_nop x3 (padding)
	/*0x40*/ 0xAAAA0000, 0xAAAA0001, 0xAAAA0002, 0xAAAA0003, // the table
	0xAAAA0004, 0xAAAA0005, 0xAAAA0006, 0xAAAA0007,
)

type args struct {
	Out driver.Ptr
}

func runKernel(t *testing.T, mode string, a arch.Type, v insts.CodeObjectVersion) uint32 {
	code := append([]byte{}, kernel...)
	if a == arch.CDNA3 {
		// On CDNA3 a FLAT SADDR field of 0 names s[0:1]; 0x7f is "off".
		copy(code[0x28:], words(0x007F0301))
	}
	p := build(mode, a)
	defer p.close()

	ctx := p.drv.Init()
	p.drv.SelectGPU(ctx, 1)
	out := p.drv.AllocateMemory(ctx, 64)
	p.drv.MemCopyH2D(ctx, out, make([]uint32, 16))

	co := codeObject(code, v)
	p.drv.LaunchKernel(ctx, co, [3]uint32{64, 1, 1}, [3]uint16{64, 1, 1}, &args{Out: out})

	res := make([]uint32, 16)
	p.drv.MemCopyD2H(ctx, res, out)
	return res[0]
}

func TestDisassembles(t *testing.T) {
	d := insts.NewDisassembler()
	pr := insts.NewInstPrinter(nil)
	buf := kernel[:0x34]
	for off := 0; off < len(buf); {
		inst, err := d.Decode(buf[off:])
		if err != nil {
			t.Fatalf("offset %#x: %v", off, err)
		}
		t.Logf("%#04x  %s", off, pr.Print(inst))
		off += inst.ByteSize
	}
}

func TestGCN3(t *testing.T) {
	emu := runKernel(t, "emu", arch.GCN3, insts.CodeObjectV3)
	tim := runKernel(t, "r9nano", arch.GCN3, insts.CodeObjectV3)
	t.Logf("out[0]: emulation %#x, timing(r9nano) %#x (architecturally table[0] = 0xaaaa0000)", emu, tim)
	if emu != tim {
		t.Errorf("C02 requires out[0] to be identical in timing and emulation mode; "+
			"the PC-relative load after s_getpc_b64 fetched %#x in emulation and %#x in "+
			"timing mode: s_getpc_b64 returns PC values 4 bytes apart in the two modes", emu, tim)
	}
}

func TestCDNA3(t *testing.T) {
	emu := runKernel(t, "emu", arch.CDNA3, insts.CodeObjectV3)
	tim := runKernel(t, "mi300a", arch.CDNA3, insts.CodeObjectV3)
	t.Logf("out[0]: emulation %#x, timing(mi300a) %#x (architecturally table[0] = 0xaaaa0000)", emu, tim)
	if emu != tim {
		t.Errorf("C02 requires out[0] to be identical in timing and emulation mode; "+
			"the PC-relative load after s_getpc_b64 fetched %#x in emulation and %#x in "+
			"timing mode: s_getpc_b64 returns PC values 4 bytes apart in the two modes", emu, tim)
	}
}
