// Copy this directory to <tree>/c02demo/<name>/ and run from the tree root:
//
//	export PATH=/opt/veriftools/go1.26.8/bin:$PATH GOTOOLCHAIN=local GOFLAGS=-mod=mod GOPROXY=off GOSUMDB=off
//	go test ./c02demo/cu_flush_reexecutes/ -count=1 -v
//
// C02: timing mode must execute, for every wavefront, exactly the instruction
// sequence emulation executes, and leave the same buffer contents.
//
// The command processor can ask a CU to flush its pipeline in the middle of a
// kernel (CUPipelineFlushReq, sent to every CU for a TLB shootdown / page
// migration) and restart it afterwards. cu.ComputeUnit.flushPipeline simply
// drops whatever is inside the execution units and sets every wavefront back
// to WfReady with an unchanged PC. The scalar, branch and LDS units, however,
// run the ALU in their *execute* stage and advance the PC one cycle later in
// their *write* stage (ScalarUnit.runExecStage / runWriteStage). A flush that
// falls between the two throws away an instruction whose architectural effect
// has already happened; after the restart the instruction is issued and
// executed a second time.
//
// A single wavefront runs `s_mov_b32 s0, 0 ; 30 x s_add_u32 s0, s0, 1` and
// stores s0. The test repeats the run with the flush request arriving at each
// of 60 consecutive cycles; the stored value has to be 30 every time.
package cu_flush_test

import (
	"encoding/binary"
	"testing"

	"github.com/sarchlab/akita/v4/mem/idealmemcontroller"
	"github.com/sarchlab/akita/v4/mem/mem"
	"github.com/sarchlab/akita/v4/sim"
	"github.com/sarchlab/akita/v4/sim/directconnection"
	"github.com/sarchlab/mgpusim/v4/amd/insts"
	"github.com/sarchlab/mgpusim/v4/amd/kernels"
	"github.com/sarchlab/mgpusim/v4/amd/protocol"
	"github.com/sarchlab/mgpusim/v4/amd/timing/cu"
)

const (
	codeAddr = 0x1000
	outAddr  = 0x20000
	numAdds  = 30
)

func program() []byte {
	w := []uint32{0xBE800080} // s_mov_b32 s0, 0
	for i := 0; i < numAdds; i++ {
		w = append(w, 0x80008100) // s_add_u32 s0, s0, 1
	}
	w = append(w,
		0x7E060200,          // v_mov_b32 v3, s0
		0x7E0202FF, outAddr, // v_mov_b32 v1, outAddr
		0x7E040280,             // v_mov_b32 v2, 0
		0xDC700000, 0x00000301, // flat_store_dword v[1:2], v3
		0xBF8C0070, // s_waitcnt vmcnt(0) lgkmcnt(0)
		0xBF810000, // s_endpgm
	)
	out := make([]byte, 4*len(w))
	for i, x := range w {
		binary.LittleEndian.PutUint32(out[4*i:], x)
	}
	return out
}

// agent plays the dispatcher and the command processor.
type agent struct {
	*sim.TickingComponent
	toCU, toCUCtrl sim.Port
	cu             *cu.ComputeUnit

	mapReq    *protocol.MapWGReq
	flushAt   int // cycle at which the flush request is sent; <0: never
	cycle     int
	sentMap   bool
	sentFlush bool
	restartIn int
	wgDone    bool
	flushed   bool
	restarted bool
}

func (a *agent) Tick() bool {
	a.cycle++
	if !a.sentMap {
		if a.toCU.Send(a.mapReq) == nil {
			a.sentMap = true
		}
	}
	if a.flushAt >= 0 && !a.sentFlush && a.cycle >= a.flushAt {
		req := protocol.CUPipelineFlushReqBuilder{}.
			WithSrc(a.toCUCtrl.AsRemote()).WithDst(a.cu.ToCP.AsRemote()).Build()
		if a.toCUCtrl.Send(req) == nil {
			a.sentFlush = true
		}
	}
	if m := a.toCUCtrl.RetrieveIncoming(); m != nil {
		switch m.(type) {
		case *protocol.CUPipelineFlushRsp:
			a.flushed = true
			a.restartIn = 20
		case *protocol.CUPipelineRestartRsp:
			a.restarted = true
		}
	}
	if a.flushed && !a.restarted && a.restartIn > 0 {
		a.restartIn--
		if a.restartIn == 0 {
			req := protocol.CUPipelineRestartReqBuilder{}.
				WithSrc(a.toCUCtrl.AsRemote()).WithDst(a.cu.ToCP.AsRemote()).Build()
			if a.toCUCtrl.Send(req) != nil {
				a.restartIn = 1
			}
		}
	}
	if m := a.toCU.RetrieveIncoming(); m != nil {
		if _, ok := m.(*protocol.WGCompletionMsg); ok {
			a.wgDone = true
		}
	}
	// keep ticking until the work-group is done (bounded)
	return !a.wgDone && a.cycle < 20000
}

// runOnce returns the value the wavefront stored and whether it finished.
func runOnce(flushAt int) (uint32, bool, bool) {
	engine := sim.NewSerialEngine()

	memory := idealmemcontroller.MakeBuilder().
		WithEngine(engine).WithFreq(1 * sim.GHz).
		WithLatency(20).WithNewStorage(1 << 24).WithTopBufSize(64).
		Build("Mem")
	memory.Storage.Write(codeAddr, program())
	memTop := memory.GetPortByName("Top")

	c := cu.MakeBuilder().WithEngine(engine).WithFreq(1 * sim.GHz).Build("CU")
	c.InstMem = memTop
	c.ScalarMem = memTop
	c.VectorMemModules = &mem.SinglePortMapper{Port: memTop.AsRemote()}

	a := &agent{cu: c, flushAt: flushAt}
	a.TickingComponent = sim.NewTickingComponent("Agent", engine, 1*sim.GHz, a)
	a.toCU = sim.NewPort(a, 4, 4, "Agent.ToCU")
	a.toCUCtrl = sim.NewPort(a, 4, 4, "Agent.ToCUCtrl")

	conn := directconnection.MakeBuilder().
		WithEngine(engine).WithFreq(1 * sim.GHz).Build("Conn")
	for _, p := range []sim.Port{memTop, c.ToInstMem, c.ToScalarMem, c.ToVectorMem,
		c.ToACE, c.ToCP, a.toCU, a.toCUCtrl} {
		conn.PlugIn(p)
	}

	co := &insts.KernelCodeObject{
		KernelCodeObjectMeta: &insts.KernelCodeObjectMeta{WFSgprCount: 16, WIVgprCount: 8},
		Data:                 program(),
		Version:              insts.CodeObjectV3,
	}
	pkt := &kernels.HsaKernelDispatchPacket{
		WorkgroupSizeX: 64, WorkgroupSizeY: 1, WorkgroupSizeZ: 1,
		GridSizeX: 64, GridSizeY: 1, GridSizeZ: 1,
		KernelObject: codeAddr,
	}
	gb := kernels.NewGridBuilder()
	gb.SetKernel(kernels.KernelLaunchInfo{CodeObject: co, Packet: pkt})
	wg := gb.NextWG()
	b := protocol.MapWGReqBuilder{}.
		WithSrc(a.toCU.AsRemote()).WithDst(c.ToACE.AsRemote()).WithPID(1).WithWG(wg)
	for _, wf := range wg.Wavefronts {
		b = b.AddWf(protocol.WfDispatchLocation{Wavefront: wf})
	}
	a.mapReq = b.Build()

	a.TickLater()
	engine.Run()

	data, _ := memory.Storage.Read(outAddr, 4)
	return binary.LittleEndian.Uint32(data), a.wgDone, a.flushed && a.restarted
}

func TestNoFlush(t *testing.T) {
	got, done, _ := runOnce(-1)
	if !done || got != numAdds {
		t.Fatalf("harness: without a flush the wavefront stored %d (done=%v), want %d", got, done, numAdds)
	}
}

func TestFlushInTheMiddleOfTheKernel(t *testing.T) {
	bad := 0
	for at := 100; at < 160; at++ {
		got, done, cycled := runOnce(at)
		if !done || !cycled {
			t.Logf("flush request at cycle %d: work-group done=%v, flush/restart handshake completed=%v", at, done, cycled)
			continue
		}
		if got != numAdds {
			bad++
			t.Errorf("C02 requires a wavefront to execute each instruction once; with the "+
				"CU pipeline flush arriving at cycle %d the %d x `s_add_u32 s0, s0, 1` "+
				"produced s0 = %d: an s_add_u32 that had already executed was dropped "+
				"before its PC update and was executed again after the restart", at, numAdds, got)
		}
	}
	t.Logf("%d of 60 flush positions gave a wrong result", bad)
}
