// Copy this directory to <tree>/c02demo/<name>/ and run from the tree root:
//
//	export PATH=/opt/veriftools/go1.26.8/bin:$PATH GOTOOLCHAIN=local GOFLAGS=-mod=mod GOPROXY=off GOSUMDB=off
//	go test ./c02demo/stale_l1v_between_kernels/ -run TestShippedFloydWarshall -count=1 -v
//
// The same defect seen through a shipped, race-free benchmark: Floyd-Warshall
// (one kernel launch per pass, pass k reads what pass k-1 wrote). Its own CPU
// reference check passes in emulation mode and fails in timing mode on the
// default 64-CU R9 Nano. (bitonicsort and pagerank behave the same way:
// `go run ./amd/samples/bitonicsort -timing -verify -length 1024`.)
package stale_l1v_test

import (
	"fmt"
	"testing"

	"github.com/sarchlab/akita/v4/simulation"
	"github.com/sarchlab/mgpusim/v4/amd/arch"
	"github.com/sarchlab/mgpusim/v4/amd/benchmarks/amdappsdk/floydwarshall"
	"github.com/sarchlab/mgpusim/v4/amd/driver"
	"github.com/sarchlab/mgpusim/v4/amd/samples/runner/emusystem"
	"github.com/sarchlab/mgpusim/v4/amd/samples/runner/timingconfig"
	"github.com/sarchlab/mgpusim/v4/amd/sampling"
)

func runFloyd(timing bool) (verdict string) {
	s := simulation.MakeBuilder().WithoutMonitoring().Build()
	if timing {
		sampling.InitSampledEngine()
		timingconfig.MakeBuilder().
			WithSimulation(s).WithNumGPUs(1).WithGPUType("r9nano").Build()
	} else {
		emusystem.MakeBuilder().
			WithSimulation(s).WithNumGPUs(1).WithArchitecture(arch.GCN3).Build()
	}
	d := s.GetComponentByName("Driver").(*driver.Driver)
	d.Run()
	defer func() {
		d.Terminate()
		s.Terminate()
	}()

	b := floydwarshall.NewBenchmark(d)
	b.NumNodes = 32
	b.NumIterations = 0
	b.Arch = arch.GCN3
	b.SelectGPU([]int{1})
	b.Run()

	defer func() {
		if r := recover(); r != nil {
			verdict = fmt.Sprint(r)
		}
	}()
	b.Verify() // panics on the first mismatch against the CPU reference
	return "ok"
}

func TestShippedFloydWarshall(t *testing.T) {
	if v := runFloyd(false); v != "ok" {
		t.Fatalf("harness: emulation mode does not match the CPU reference: %s", v)
	}
	if v := runFloyd(true); v != "ok" {
		t.Errorf("C02 requires timing mode to produce the same device buffers as "+
			"emulation mode; emulation matches the CPU reference, timing mode "+
			"(r9nano, 64 CUs) does not: %s", v)
	}
}
