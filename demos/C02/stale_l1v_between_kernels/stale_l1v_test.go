// Copy this directory to <tree>/c02demo/<name>/ and run from the tree root:
//
//	export PATH=/opt/veriftools/go1.26.8/bin:$PATH GOTOOLCHAIN=local GOFLAGS=-mod=mod GOPROXY=off GOSUMDB=off
//	go test ./c02demo/stale_l1v_between_kernels/ -run TestThreeKernelChain -count=1 -v
//
// C02: a race-free program must leave the same bytes in every device buffer
// in timing mode as in emulation mode; the number of compute units may change
// simulated time only.
//
// The program is three back-to-back launches of the shipped ReLUForward
// kernel (out[i] = max(in[i], 0), one work-item per element):
//
//	K1: B        = relu(A)          (every CU pulls "its" part of A into its L1V)
//	K2: A[64..]  = relu(C[64..])    (same grid, shifted by one work-group, so most
//	                                 parts of A are rewritten by a *different* CU)
//	K3: D        = relu(A)          (same grid as K1)
//
// Kernels of one queue run strictly one after the other, so there is no race.
// In emulation D[i] == C[i] for i >= 64. In timing mode nothing invalidates the
// per-CU L1 vector caches between kernels (the command processor only touches
// the caches for a driver FlushReq, which is only sent for memory copies), so
// in K3 a CU hits the line it cached in K1 and reads the value A had before K2.
package stale_l1v_test

import (
	"os"
	"testing"

	"github.com/sarchlab/akita/v4/simulation"
	"github.com/sarchlab/mgpusim/v4/amd/arch"
	"github.com/sarchlab/mgpusim/v4/amd/driver"
	"github.com/sarchlab/mgpusim/v4/amd/insts"
	"github.com/sarchlab/mgpusim/v4/amd/samples/runner/emusystem"
	"github.com/sarchlab/mgpusim/v4/amd/samples/runner/timingconfig"
	"github.com/sarchlab/mgpusim/v4/amd/sampling"
)

type reluArgs struct {
	Count               uint32
	Padding             uint32
	Input               driver.Ptr
	Output              driver.Ptr
	HiddenGlobalOffsetX int64
	HiddenGlobalOffsetY int64
	HiddenGlobalOffsetZ int64
}

const n = 128 * 64 // 128 work-groups of one wavefront each

// run executes the three-kernel chain and returns D. If copyBetween is set, a
// device-to-host copy of an unrelated buffer is issued between the kernels;
// its only architectural effect is the cache flush the driver attaches to it.
func run(t *testing.T, timing bool, copyBetween bool) []float32 {
	t.Helper()

	s := simulation.MakeBuilder().WithoutMonitoring().Build()
	if timing {
		sampling.InitSampledEngine()
		timingconfig.MakeBuilder().
			WithSimulation(s).WithNumGPUs(1).WithGPUType("r9nano").Build()
	} else {
		emusystem.MakeBuilder().
			WithSimulation(s).WithNumGPUs(1).WithArchitecture(arch.GCN3).Build()
	}
	d := s.GetComponentByName("Driver").(*driver.Driver)
	d.Run()
	defer func() {
		d.Terminate()
		s.Terminate()
	}()

	co := insts.LoadKernelCodeObjectFromFS(
		repoRoot+"/amd/benchmarks/dnn/layer_benchmarks/relu/kernels.hsaco",
		"ReLUForward")

	ctx := d.Init()
	d.SelectGPU(ctx, 1)

	a := make([]float32, n)
	c := make([]float32, n)
	for i := range a {
		a[i] = float32(i + 1)
		c[i] = float32(1000000 + i)
	}
	gA := d.AllocateMemory(ctx, n*4)
	gB := d.AllocateMemory(ctx, n*4)
	gC := d.AllocateMemory(ctx, n*4)
	gD := d.AllocateMemory(ctx, n*4)
	gScratch := d.AllocateMemory(ctx, 64)
	d.MemCopyH2D(ctx, gA, a)
	d.MemCopyH2D(ctx, gC, c)
	d.MemCopyH2D(ctx, gD, make([]float32, n))

	launch := func(in, out driver.Ptr, count uint32) {
		args := reluArgs{Count: count, Input: in, Output: out}
		d.LaunchKernel(ctx, co, [3]uint32{n, 1, 1}, [3]uint16{64, 1, 1}, &args)
	}
	sync := func() {
		if copyBetween {
			tmp := make([]byte, 64)
			d.MemCopyD2H(ctx, tmp, gScratch)
		}
	}

	launch(gA, gB, n) // K1
	sync()
	launch(gC+64*4, gA+64*4, n-64) // K2, shifted by one work-group
	sync()
	launch(gA, gD, n) // K3

	out := make([]float32, n)
	d.MemCopyD2H(ctx, out, gD)
	return out
}

var repoRoot string

func TestMain(m *testing.M) {
	wd, _ := os.Getwd()
	repoRoot = wd + "/../../.."
	tmp, _ := os.MkdirTemp("", "c02demo")
	os.Chdir(tmp) // the simulation drops an sqlite file into the cwd
	code := m.Run()
	os.RemoveAll(tmp)
	os.Exit(code)
}

func countDiff(a, b []float32) (int, int) {
	cnt, first := 0, -1
	for i := range a {
		if a[i] != b[i] {
			if first < 0 {
				first = i
			}
			cnt++
		}
	}
	return cnt, first
}

func TestThreeKernelChain(t *testing.T) {
	emu := run(t, false, false)
	for i := 64; i < n; i++ {
		if emu[i] != float32(1000000+i) {
			t.Fatalf("harness: emulation D[%d] = %v, want %v", i, emu[i], float32(1000000+i))
		}
	}

	tim := run(t, true, false)
	if cnt, first := countDiff(emu, tim); cnt != 0 {
		t.Errorf("C02 requires the final contents of buffer D to be identical in "+
			"timing and emulation mode; %d of %d elements differ, first at D[%d]: "+
			"emulation %v (the value K2 stored into A), timing %v (the value A held "+
			"before K2, i.e. a stale L1V line from K1)",
			cnt, n, first, emu[first], tim[first])
	}

	// Control: the very same program with a cache flush (side effect of an
	// unrelated 64-byte D2H copy) between the kernels gives the right answer,
	// which pins the difference on the caches not being invalidated between
	// kernels.
	timFlushed := run(t, true, true)
	if cnt, _ := countDiff(emu, timFlushed); cnt != 0 {
		t.Logf("control run with flushes between kernels also differs in %d elements", cnt)
	} else {
		t.Logf("control: with a driver-triggered cache flush between the kernels timing == emulation")
	}
}
