package cu

// Demonstration for C02: timing write-back of FLAT_LOAD_USHORT (run in file-list mode, see README.md).

import (
	"testing"

	"github.com/sarchlab/akita/v4/mem/mem"
	"github.com/sarchlab/akita/v4/sim"
	"github.com/sarchlab/mgpusim/v4/amd/insts"
	"github.com/sarchlab/mgpusim/v4/amd/timing/wavefront"
)

func TestC02FlatLoadUShortKeepsBothBytes(t *testing.T) {
	cu := &ComputeUnit{}
	cu.TickingComponent = sim.NewTickingComponent("CU", sim.NewSerialEngine(), 1*sim.GHz, cu)
	cu.VRegFile = []RegisterFile{NewSimpleRegisterFile(16*1024, 1024)}

	wf := wavefront.NewWavefront(nil)
	wf.SIMDID = 0
	inst := wavefront.NewInst(&insts.Inst{Format: &insts.Format{FormatType: insts.FLAT}, InstType: &insts.InstType{Opcode: 18}})
	read := mem.ReadReqBuilder{}.WithAddress(0x1000).WithByteSize(64).Build()
	read.CanWaitForCoalesce = true
	cu.InFlightVectorMemAccess = []VectorMemAccessInfo{{
		Read: read, Wavefront: wf, Inst: inst,
		laneInfo: []vectorMemAccessLaneInfo{{laneID: 3, reg: insts.VReg(5), regCount: 1, addrOffsetInCacheLine: 8}},
	}}
	data := make([]byte, 64)
	data[8], data[9], data[10], data[11] = 0x34, 0x12, 0xAA, 0xBB
	rsp := mem.DataReadyRspBuilder{}.WithRspTo(read.ID).WithData(data).Build()

	cu.handleVectorDataLoadReturn(rsp)

	acc := RegisterAccess{Reg: insts.VReg(5), RegCount: 1, LaneID: 3, Data: make([]byte, 4)}
	cu.VRegFile[0].Read(acc)
	got := insts.BytesToUint32(acc.Data)
	// emulation (emu.ALUImpl.runFlatLoadUShort) keeps the two low bytes: 0x1234
	if got != 0x1234 {
		t.Errorf("timing wrote %#x into v5 lane 3, emulation writes 0x1234", got)
	}
}
