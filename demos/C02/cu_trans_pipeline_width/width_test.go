// Copy this directory to <tree>/c02demo/<name>/ and run from the tree root:
//
//	export PATH=/opt/veriftools/go1.26.8/bin:$PATH GOTOOLCHAIN=local GOFLAGS=-mod=mod GOPROXY=off GOSUMDB=off
//	go test ./c02demo/cu_trans_pipeline_width/ -count=1 -v
//
// C02: timing knobs of the compute unit may change simulated time only.
//
// cu.Builder.WithVecMemTransPipelineWidth(n) (1 on the R9 Nano, 8 on the
// MI300A platform) sets the width of the akita pipeline through which
// cu.VectorMemoryUnit sends the memory transactions of all FLAT instructions.
// With n > 1 the pipeline is n independent lanes that share one post-pipeline
// buffer and are drained lane 0 first; VectorMemoryUnit.insertTransactionToPipeline
// keeps feeding whatever lane is free. As soon as the memory side accepts
// fewer than n transactions per cycle the high lanes starve while younger
// transactions flow through the low lanes, so the CU emits its transactions
// out of program order. Two architectural consequences, both shown here on a
// single stand-alone CU (MI300A pipeline parameters) in front of an ideal
// memory that accepts 2 requests per cycle:
//
//   - stores of one work-item to one address overtake each other
//     (each work-item stores 1..8 to its own cache line; must end as 8);
//   - the transaction that carries "I am the last one of this instruction"
//     (CanWaitForCoalesce == false) overtakes its siblings, the wavefront's
//     vmcnt drops to zero while loaded data is still on its way, s_waitcnt
//     vmcnt(0) lets the wavefront continue and it uses a stale register
//     (each work-item copies in[id] to out[id] through a VGPR).
//
// With width 1 the same programs give the right answer.
package cu_width_test

import (
	"encoding/binary"
	"testing"

	"github.com/sarchlab/akita/v4/mem/idealmemcontroller"
	"github.com/sarchlab/akita/v4/mem/mem"
	"github.com/sarchlab/akita/v4/sim"
	"github.com/sarchlab/akita/v4/sim/directconnection"
	"github.com/sarchlab/mgpusim/v4/amd/insts"
	"github.com/sarchlab/mgpusim/v4/amd/kernels"
	"github.com/sarchlab/mgpusim/v4/amd/protocol"
	"github.com/sarchlab/mgpusim/v4/amd/timing/cu"
)

const (
	codeAddr  = 0x1000
	outAddr   = 0x100000
	numStores = 8
)

const inAddr = 0x200000

// copyProgram: every work-item loads in[64*id], waits, and stores it to out[64*id]
func copyProgram() []byte {
	w := []uint32{
		0x24020086,         // v_lshlrev_b32 v1, 6, v0
		0x7E040280,         // v_mov_b32 v2, 0
		0x7E0A0280,         // v_mov_b32 v5, 0
		0x320802FF, inAddr, // v_add_u32 v4, vcc, inAddr, v1
		0x320202FF, outAddr, // v_add_u32 v1, vcc, outAddr, v1
		0x7E0C0304,             // v_mov_b32 v6, v4   (v[6:7] = in address)
		0x7E0E0280,             // v_mov_b32 v7, 0
		0xDC500000, 0x05000006, // flat_load_dword v5, v[6:7]
		0xBF8C0070,             // s_waitcnt vmcnt(0) lgkmcnt(0)
		0xDC700000, 0x00000501, // flat_store_dword v[1:2], v5
		0xBF8C0070, // s_waitcnt vmcnt(0) lgkmcnt(0)
		0xBF810000, // s_endpgm
	}
	out := make([]byte, 4*len(w))
	for i, x := range w {
		binary.LittleEndian.PutUint32(out[4*i:], x)
	}
	return out
}

// program: every work-item stores 1..8 to outAddr + 64*id
func program() []byte {
	w := []uint32{
		0x24020086,          // v_lshlrev_b32 v1, 6, v0
		0x320202FF, outAddr, // v_add_u32 v1, vcc, outAddr, v1
		0x7E040280, //          v_mov_b32 v2, 0
	}
	for k := 1; k <= numStores; k++ {
		w = append(w,
			0x7E060280+uint32(k),   // v_mov_b32 v3, k
			0xDC700000, 0x00000301, // flat_store_dword v[1:2], v3
		)
	}
	w = append(w,
		0xBF8C0070, // s_waitcnt vmcnt(0) lgkmcnt(0)
		0xBF810000, // s_endpgm
	)
	out := make([]byte, 4*len(w))
	for i, x := range w {
		binary.LittleEndian.PutUint32(out[4*i:], x)
	}
	return out
}

type agent struct {
	*sim.TickingComponent
	toCU    sim.Port
	mapReq  *protocol.MapWGReq
	sentMap bool
	wgDone  bool
	cycle   int
}

func (a *agent) Tick() bool {
	a.cycle++
	if !a.sentMap {
		if a.toCU.Send(a.mapReq) == nil {
			a.sentMap = true
		}
	}
	if m := a.toCU.RetrieveIncoming(); m != nil {
		if _, ok := m.(*protocol.WGCompletionMsg); ok {
			a.wgDone = true
		}
	}
	return !a.wgDone && a.cycle < 2000000
}

type orderChecker struct {
	last       map[uint64]uint32
	outOfOrder int
	example    [2]uint32
	exAddr     uint64
}

func (c *orderChecker) Func(ctx sim.HookCtx) {
	if ctx.Pos != sim.HookPosPortMsgSend {
		return
	}
	w, ok := ctx.Item.(*mem.WriteReq)
	if !ok {
		return
	}
	for off := 0; off+4 <= len(w.Data); off += 4 {
		if !w.DirtyMask[off] {
			continue
		}
		addr := w.Address + uint64(off)
		v := binary.LittleEndian.Uint32(w.Data[off:])
		if v < c.last[addr] {
			if c.outOfOrder == 0 {
				c.example = [2]uint32{v, c.last[addr]}
				c.exAddr = addr
			}
			c.outOfOrder++
		}
		if v > c.last[addr] {
			c.last[addr] = v
		}
	}
}

func runOnce(prog []byte, width int, memWidth int, wgSize int) (wrong int, chk *orderChecker, done bool) {
	engine := sim.NewSerialEngine()

	memory := idealmemcontroller.MakeBuilder().
		WithEngine(engine).WithFreq(1 * sim.GHz).
		WithLatency(50).WithWidth(memWidth).WithNewStorage(1 << 24).WithTopBufSize(16).
		Build("Mem")
	memory.Storage.Write(codeAddr, prog)
	for i := 0; i < wgSize; i++ {
		memory.Storage.Write(inAddr+uint64(64*i), u32(uint32(100+i)))
	}
	memTop := memory.GetPortByName("Top")

	c := cu.MakeBuilder().WithEngine(engine).WithFreq(1 * sim.GHz).
		WithVecMemInstPipelineStages(2).
		WithVecMemTransPipelineStages(4).
		WithVecMemTransPipelineWidth(width).
		WithMemPipelineBufferSize(64).
		Build("CU")
	c.InstMem = memTop
	c.ScalarMem = memTop
	c.VectorMemModules = &mem.SinglePortMapper{Port: memTop.AsRemote()}
	chk = &orderChecker{last: map[uint64]uint32{}}
	c.ToVectorMem.AcceptHook(chk)

	a := &agent{}
	a.TickingComponent = sim.NewTickingComponent("Agent", engine, 1*sim.GHz, a)
	a.toCU = sim.NewPort(a, 4, 4, "Agent.ToCU")

	conn := directconnection.MakeBuilder().
		WithEngine(engine).WithFreq(1 * sim.GHz).Build("Conn")
	for _, p := range []sim.Port{memTop, c.ToInstMem, c.ToScalarMem, c.ToVectorMem,
		c.ToACE, c.ToCP, a.toCU} {
		conn.PlugIn(p)
	}

	co := &insts.KernelCodeObject{
		KernelCodeObjectMeta: &insts.KernelCodeObjectMeta{WFSgprCount: 16, WIVgprCount: 8},
		Data:                 prog,
		Version:              insts.CodeObjectV3,
	}
	pkt := &kernels.HsaKernelDispatchPacket{
		WorkgroupSizeX: uint16(wgSize), WorkgroupSizeY: 1, WorkgroupSizeZ: 1,
		GridSizeX: uint32(wgSize), GridSizeY: 1, GridSizeZ: 1,
		KernelObject: codeAddr,
	}
	gb := kernels.NewGridBuilder()
	gb.SetKernel(kernels.KernelLaunchInfo{CodeObject: co, Packet: pkt})
	wg := gb.NextWG()
	b := protocol.MapWGReqBuilder{}.
		WithSrc(a.toCU.AsRemote()).WithDst(c.ToACE.AsRemote()).WithPID(1).WithWG(wg)
	for i, wf := range wg.Wavefronts {
		b = b.AddWf(protocol.WfDispatchLocation{
			Wavefront: wf, SIMDID: i % 4,
			VGPROffset: (i / 4) * 8 * 4, SGPROffset: i * 16 * 4,
		})
	}
	a.mapReq = b.Build()

	a.TickLater()
	engine.Run()

	isCopy := len(prog) == len(copyProgram())
	for i := 0; i < wgSize; i++ {
		data, _ := memory.Storage.Read(outAddr+uint64(64*i), 4)
		want := uint32(numStores)
		if isCopy {
			want = uint32(100 + i)
		}
		if binary.LittleEndian.Uint32(data) != want {
			wrong++
		}
	}
	return wrong, chk, a.wgDone
}

func u32(v uint32) []byte {
	b := make([]byte, 4)
	binary.LittleEndian.PutUint32(b, v)
	return b
}

func TestDisassembles(t *testing.T) {
	d := insts.NewDisassembler()
	pr := insts.NewInstPrinter(nil)
	for _, k := range [][]byte{program(), copyProgram()} {
		for off := 0; off < len(k); {
			inst, err := d.Decode(k[off:])
			if err != nil {
				t.Fatalf("offset %#x: %v", off, err)
			}
			t.Logf("%#04x  %s", off, pr.Print(inst))
			off += inst.ByteSize
		}
	}
}

const wgSize = 1024 // 16 wavefronts

func TestRepeatedStores(t *testing.T) {
	if wrong, chk, done := runOnce(program(), 1, 2, wgSize); !done || wrong != 0 || chk.outOfOrder != 0 {
		t.Fatalf("control (width 1): done=%v wrong=%d out of order=%d", done, wrong, chk.outOfOrder)
	}
	wrong, chk, done := runOnce(program(), 8, 2, wgSize)
	if !done {
		t.Fatalf("work-group did not finish")
	}
	if wrong != 0 || chk.outOfOrder != 0 {
		t.Errorf("C02 requires the transaction pipeline width to change timing only; "+
			"with width 8 the CU sent %d stores behind a younger store of the same "+
			"work-item to the same address (e.g. address %#x: value %d after value %d) "+
			"and %d of %d work-items end with an old value instead of %d; with width 1 none",
			chk.outOfOrder, chk.exAddr, chk.example[0], chk.example[1], wrong, wgSize, numStores)
	}
}

func TestLoadThenUse(t *testing.T) {
	if wrong, _, done := runOnce(copyProgram(), 1, 2, wgSize); !done || wrong != 0 {
		t.Fatalf("control (width 1): done=%v wrong=%d", done, wrong)
	}
	wrong, _, done := runOnce(copyProgram(), 8, 2, wgSize)
	if !done {
		t.Fatalf("work-group did not finish")
	}
	if wrong != 0 {
		t.Errorf("C02 requires the transaction pipeline width to change timing only; "+
			"with width 8, %d of %d work-items copied a stale register instead of in[id]: "+
			"s_waitcnt vmcnt(0) released the wavefront before all transactions of its "+
			"flat_load_dword had returned; with width 1 none", wrong, wgSize)
	}
}
