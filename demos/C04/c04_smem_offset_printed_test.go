package insts

import (
	"encoding/binary"
	"testing"
)

// The SMEM offset is an SGPR (IMM = 0) or an immediate of 20 bits (21 signed bits on CDNA3).
// The printer showed uint16(IntValue): 0x0 for registers, the low 16 bits for immediates.
func TestC04SMEMOffsetPrinted(t *testing.T) {
	smem := func(op, imm, sdata, sbase, offset uint32) []byte {
		buf := make([]byte, 8)
		binary.LittleEndian.PutUint32(buf, 0xC0000000|op<<18|imm<<17|sdata<<6|sbase)
		binary.LittleEndian.PutUint32(buf[4:], offset)
		return buf
	}
	cases := []struct {
		cdna3 bool
		buf   []byte
		want  string
	}{
		{false, smem(0, 1, 0, 1, 0x10), "s_load_dword s0, s[2:3], 0x10"},
		{false, smem(0, 0, 0, 1, 4), "s_load_dword s0, s[2:3], s4"},
		{false, smem(0, 1, 0, 1, 0x12340), "s_load_dword s0, s[2:3], 0x12340"},
		{true, smem(0, 1, 0, 1, 0x1FFFF8), "s_load_dword s0, s[2:3], -0x8"},
	}
	for _, c := range cases {
		d := NewDisassembler()
		d.IsCDNA3 = c.cdna3
		inst, err := d.Decode(c.buf)
		if err != nil {
			t.Fatal(err)
		}
		if got := NewInstPrinter(nil).Print(inst); got != c.want {
			t.Errorf("% x prints as %q, want %q", c.buf, got, c.want)
		}
	}
}
