package insts

import (
	"encoding/binary"
	"testing"
)

// A DS instruction has one 16-bit offset unless it is a two-address form (write2 / read2 /
// wrxchg2 and the st64 variants). The printer knew the one-offset form for four opcodes only.
func TestC04DSOffsetForm(t *testing.T) {
	ds := func(op, offset, addr, data0, data1, vdst uint32) []byte {
		buf := make([]byte, 8)
		binary.LittleEndian.PutUint32(buf, 0xD8000000|op<<17|offset)
		binary.LittleEndian.PutUint32(buf[4:], vdst<<24|data1<<16|data0<<8|addr)
		return buf
	}
	cases := []struct {
		buf  []byte
		want string
	}{
		{ds(118, 520, 0, 0, 0, 1), "ds_read_b64 v[1:2], v0 offset:520"},
		{ds(77, 520, 0, 2, 0, 0), "ds_write_b64 v0, v[2:3] offset:520"},
		{ds(54, 520, 0, 0, 0, 1), "ds_read_b32 v1, v0 offset:520"},
		{ds(55, 2<<8|1, 0, 0, 0, 1), "ds_read2_b32 v[1:2], v0 offset0:1 offset1:2"},
	}
	for _, c := range cases {
		inst, err := NewDisassembler().Decode(c.buf)
		if err != nil {
			t.Fatal(err)
		}
		if got := NewInstPrinter(nil).Print(inst); got != c.want {
			t.Errorf("% x (%s) prints as %q, want %q", c.buf, inst.InstName, got, c.want)
		}
	}
}
