package insts

// Demonstration for C04: s_add_u32 s0, 0x12345678, 0x12345678 — both sources name the one
// literal dword, the instruction is 8 bytes long.
//   cp c04_two_literals_test.go <tree>/amd/insts/ && go test -run TestC04 ./amd/insts/

import "testing"

func TestC04TwoLiteralSourcesShareOneDword(t *testing.T) {
	buf := []byte{0xff, 0xff, 0x00, 0x80, 0x78, 0x56, 0x34, 0x12, 0x00, 0x00, 0x81, 0xbf} // ..., then s_endpgm
	inst, err := NewDisassembler().Decode(buf)
	if err != nil {
		t.Fatal(err)
	}
	if inst.ByteSize != 8 {
		t.Errorf("%s decoded with ByteSize %d, the encoding is 8 bytes (one literal dword)", inst.InstName, inst.ByteSize)
	}
	if inst.Src0.LiteralConstant != 0x12345678 || inst.Src1.LiteralConstant != 0x12345678 {
		t.Errorf("literals %#x %#x", inst.Src0.LiteralConstant, inst.Src1.LiteralConstant)
	}
}

func TestC04SetregImm32IsEightBytes(t *testing.T) {
	// s_setreg_imm32_b32 hwreg(...), 0xdeadbeef ; s_endpgm
	buf := []byte{0x01, 0x00, 0x00, 0xba, 0xef, 0xbe, 0xad, 0xde, 0x00, 0x00, 0x81, 0xbf}
	inst, err := NewDisassembler().Decode(buf)
	if err != nil {
		t.Fatal(err)
	}
	if inst.InstName != "s_setreg_imm32_b32" || inst.ByteSize != 8 {
		t.Errorf("%s decoded with ByteSize %d; the instruction carries a 32-bit literal and is 8 bytes long", inst.InstName, inst.ByteSize)
	}
}

func TestC04DSGdsFlagComesFromBit16(t *testing.T) {
	// ds_read_b32 v0, v0 offset:16   (offset0 = 0x10, gds = 0)
	lo := uint32(0xD8000000) | 54<<17 | 0x10
	buf := []byte{byte(lo), byte(lo >> 8), byte(lo >> 16), byte(lo >> 24), 0, 0, 0, 0}
	inst, err := NewDisassembler().Decode(buf)
	if err != nil {
		t.Fatal(err)
	}
	if inst.GDS {
		t.Errorf("%s offset:16 decoded with the GDS flag set although bit 16 of the encoding is clear", inst.InstName)
	}
}

func TestC04Ttmp11IsDecodable(t *testing.T) {
	// s_mov_b32 ttmp11, s0
	w := uint32(0xBE800000) | 123<<16
	buf := []byte{byte(w), byte(w >> 8), byte(w >> 16), byte(w >> 24)}
	if _, err := NewDisassembler().Decode(buf); err != nil {
		t.Errorf("s_mov_b32 ttmp11, s0 is reported as undecodable: %v", err)
	}
}

func TestC04MadakWithLiteralSourceIsEightBytes(t *testing.T) {
	// v_madak_f32 v1, 0x3f800000, v2, 0x3f800000
	buf := []byte{0xff, 0x04, 0x02, 0x30, 0x00, 0x00, 0x80, 0x3f, 0x00, 0x00, 0x81, 0xbf}
	inst, err := NewDisassembler().Decode(buf)
	if err != nil {
		t.Fatal(err)
	}
	if inst.ByteSize != 8 {
		t.Errorf("%s with a literal SRC0 decoded with ByteSize %d; K and the literal share one dword (8 bytes)", inst.InstName, inst.ByteSize)
	}
}

func TestC04ConstantAsDestinationIsUndecodable(t *testing.T) {
	// v_cmp_lt_f32_e64 with destination field 0x80 (inline constant 0)
	buf := []byte{0x80, 0x00, 0x41, 0xd0, 0x01, 0x05, 0x00, 0x00}
	if inst, err := NewDisassembler().Decode(buf); err == nil {
		t.Errorf("a compare whose destination field names an inline constant decodes to %q without error (destination register: %v)", inst.InstName, inst.Dst.Register)
	}
}
