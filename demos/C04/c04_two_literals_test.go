package insts

// Demonstration for C04: s_add_u32 s0, 0x12345678, 0x12345678 — both sources name the one
// literal dword, the instruction is 8 bytes long.
//   cp c04_two_literals_test.go <tree>/amd/insts/ && go test -run TestC04 ./amd/insts/

import "testing"

func TestC04TwoLiteralSourcesShareOneDword(t *testing.T) {
	buf := []byte{0xff, 0xff, 0x00, 0x80, 0x78, 0x56, 0x34, 0x12, 0x00, 0x00, 0x81, 0xbf} // ..., then s_endpgm
	inst, err := NewDisassembler().Decode(buf)
	if err != nil {
		t.Fatal(err)
	}
	if inst.ByteSize != 8 {
		t.Errorf("%s decoded with ByteSize %d, the encoding is 8 bytes (one literal dword)", inst.InstName, inst.ByteSize)
	}
	if inst.Src0.LiteralConstant != 0x12345678 || inst.Src1.LiteralConstant != 0x12345678 {
		t.Errorf("literals %#x %#x", inst.Src0.LiteralConstant, inst.Src1.LiteralConstant)
	}
}
