package insts

import (
	"encoding/binary"
	"testing"
)

// s_memtime returns a 64-bit counter (an SGPR pair); the s_buffer forms take a
// four-SGPR buffer resource as base.
func TestC04SMEMOperandWidths(t *testing.T) {
	cases := []struct {
		opcode     uint32
		name       string
		data, base int
	}{
		{0, "s_load_dword", 1, 2},
		{1, "s_load_dwordx2", 2, 2},
		{8, "s_buffer_load_dword", 1, 4},
		{10, "s_buffer_load_dwordx4", 4, 4},
		{36, "s_memtime", 2, 2},
		{37, "s_memrealtime", 2, 2},
	}
	norm := func(k int) int {
		if k == 0 {
			return 1
		}
		return k
	}
	for _, c := range cases {
		buf := make([]byte, 8)
		binary.LittleEndian.PutUint32(buf, 0xC0000000|c.opcode<<18|1<<17|4<<6|2) // sdata s4, sbase s[4:..], imm
		inst, err := NewDisassembler().Decode(buf)
		if err != nil {
			t.Fatalf("%s: %v", c.name, err)
		}
		if inst.InstName != c.name {
			t.Fatalf("opcode %d decodes as %s, want %s", c.opcode, inst.InstName, c.name)
		}
		if norm(inst.Data.RegCount) != c.data {
			t.Errorf("%s: SDATA has %d register(s), want %d", c.name, norm(inst.Data.RegCount), c.data)
		}
		if c.name != "s_memtime" && c.name != "s_memrealtime" && inst.Base.RegCount != c.base {
			t.Errorf("%s: SBASE has %d register(s), want %d", c.name, inst.Base.RegCount, c.base)
		}
	}
}
