package emu

// Demonstration (C04: decoding is deterministic and does not depend on history; also C12 "commands of other contexts never disturb their data"): two
// processes have different code at the same virtual address (every process starts allocating at
// the same address). The emulator's decoded-instruction cache must not hand process 2 the
// instructions of process 1.
//
//   cp c04_emu_instcache_test.go <tree>/amd/emu/ ; cd <tree>/amd/emu
//   go test -count=1 -v -run TestC04Emu $(ls *.go | grep -v _test.go) c04_emu_instcache_test.go

import (
	"encoding/binary"
	"testing"

	"github.com/sarchlab/akita/v4/mem/vm"
	"github.com/sarchlab/akita/v4/sim"
	"github.com/sarchlab/mgpusim/v4/amd/insts"
)

type perProcessCode map[vm.PID][]byte

func (c perProcessCode) Read(pid vm.PID, vAddr, n uint64) []byte {
	out := make([]byte, n)
	copy(out, c[pid][vAddr-0x1000:])
	return out
}
func (c perProcessCode) Write(pid vm.PID, vAddr uint64, data []byte) {}

func words(ws ...uint32) []byte {
	b := make([]byte, 4*len(ws)+8)
	for i, w := range ws {
		binary.LittleEndian.PutUint32(b[4*i:], w)
	}
	return b
}

func TestC04EmuDecodeCacheIsPerProcess(t *testing.T) {
	// s_mov_b32 s0, 1 ; s_endpgm     versus     s_mov_b32 s0, 2 ; s_endpgm
	code := perProcessCode{
		1: words(0xBE800081, 0xBF810000),
		2: words(0xBE800082, 0xBF810000),
	}
	cu := NewComputeUnit("CU", sim.NewSerialEngine(), insts.NewDisassembler(), NewALU(code), code)
	run := func(pid vm.PID) uint32 {
		wf := NewWavefront(nil)
		wf.pid = pid
		wf.SetPC(0x1000)
		if err := cu.runWfUntilBarrier(wf); err != nil {
			t.Fatal(err)
		}
		return binary.LittleEndian.Uint32(wf.SRegFile[0:])
	}
	if got := run(1); got != 1 {
		t.Fatalf("process 1: s0 = %d, want 1", got)
	}
	if got := run(2); got != 2 {
		t.Errorf("process 2 executed process 1's instructions: s0 = %d, its own code sets 2", got)
	}
}
