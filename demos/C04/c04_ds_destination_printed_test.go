package insts

import (
	"encoding/binary"
	"strings"
	"testing"
)

// A DS instruction that returns a value names its destination VGPR in the disassembly:
// ds_add_rtn_u32 v3, v1, v2 - not only the plain reads do.
func TestC04DSDestinationPrinted(t *testing.T) {
	cases := []struct {
		lo, hi uint32
		want   string
	}{
		{0xD8400000, 0x03000201, "ds_add_rtn_u32 v3, v1, v2"},
		{0xD86C0000, 0x00000201, "ds_read_b32"}, // control: a plain read, printed with its destination before too
	}
	for _, c := range cases {
		buf := make([]byte, 8)
		binary.LittleEndian.PutUint32(buf, c.lo)
		binary.LittleEndian.PutUint32(buf[4:], c.hi)
		inst, err := NewDisassembler().Decode(buf)
		if err != nil {
			t.Fatal(err)
		}
		got := NewInstPrinter(nil).Print(inst)
		if !strings.HasPrefix(got, c.want) {
			t.Errorf("%08x %08x prints as %q, want %q...", c.lo, c.hi, got, c.want)
		}
	}
}
