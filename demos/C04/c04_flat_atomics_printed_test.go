package insts

import (
	"encoding/binary"
	"testing"
)

// Every decodable instruction has a disassembly. The FLAT atomics fell through both arms of
// flatString (loads 16..23, stores 24..31) and printed as the empty string.
func TestC04FlatAtomicsPrinted(t *testing.T) {
	cases := []struct {
		lo, hi uint32
		want   string
	}{
		// flat_atomic_add v[2:3], v5           op 66, no GLC
		{0xDC000000 | 66<<18, 0x00000502, "flat_atomic_add v[2:3], v5"},
		// flat_atomic_add v7, v[2:3], v5 glc   op 66, GLC (bit 16)
		{0xDC000000 | 66<<18 | 1<<16, 0x07000502, "flat_atomic_add v7, v[2:3], v5 glc"},
		// flat_atomic_cmpswap_x2 v[2:3], v[4:7] op 97
		{0xDC000000 | 97<<18, 0x00000402, "flat_atomic_cmpswap_x2 v[2:3], v[4:7]"},
	}
	for _, c := range cases {
		buf := make([]byte, 8)
		binary.LittleEndian.PutUint32(buf, c.lo)
		binary.LittleEndian.PutUint32(buf[4:], c.hi)
		inst, err := NewDisassembler().Decode(buf)
		if err != nil {
			t.Fatal(err)
		}
		if got := NewInstPrinter(nil).Print(inst); got != c.want {
			t.Errorf("%08x %08x (%s) prints as %q, want %q", c.lo, c.hi, inst.InstName, got, c.want)
		}
	}
}
