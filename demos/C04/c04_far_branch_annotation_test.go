package insts

import (
	"debug/elf"
	"fmt"
	"testing"
)

// The disassembly annotates a branch with the symbol at PC + simm16*4 + 4. SIMM16 counts
// dwords, so a branch reaches +-128 KiB; the displacement has to be computed after the
// immediate was widened, otherwise it wraps modulo 64 KiB for |simm16| >= 8192.
func TestC04FarBranchAnnotation(t *testing.T) {
	f, err := elf.Open("../benchmarks/heteromark/fir/kernels.hsaco")
	if err != nil {
		t.Skip(err)
	}
	defer f.Close()
	syms, _ := f.Symbols()
	// the sized symbol with the highest address, so that forward branches have room below it
	var target elf.Symbol
	for _, s := range syms {
		if s.Size > 0 && s.Value > target.Value {
			target = s
		}
	}
	if target.Name == "" {
		t.Skip("no sized symbol")
	}
	names := map[string]bool{}
	for _, s := range syms {
		if s.Value == target.Value {
			names[fmt.Sprintf("<%s>", s.Name)] = true
		}
	}
	p := NewInstPrinter(f)
	for _, imm := range []int16{16, -16, 8191, -8192, 8192, 10000, -8193, -20000, 16384, -32768} {
		inst := NewInst()
		inst.FormatType = SOPP
		inst.Opcode = 2 // s_branch
		inst.InstName = "s_branch"
		inst.SImm16 = NewIntOperand(0, int64(uint16(imm)))
		pc := int64(target.Value) - 4 - int64(imm)*4
		if pc < 0 {
			continue
		}
		inst.PC = uint64(pc)
		if got := p.BranchTargetAnnotation(inst); !names[got] {
			t.Errorf("s_branch %d at PC %#x targets %#x (%s): annotation %q", imm, inst.PC, target.Value, target.Name, got)
		}
	}
}
