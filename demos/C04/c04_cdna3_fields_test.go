package insts

// cp c04_cdna3_fields_test.go <tree>/amd/insts/ && cd <tree>/amd/insts &&
// go test -count=1 -run TestC04CDNA3Fields $(ls *.go | grep -v _test.go) c04_cdna3_fields_test.go
//
// Fields that exist on Vega / CDNA3 only (R04.20): the upper vmcnt bits of s_waitcnt
// and the sign bit of the SMEM immediate offset.

import (
	"encoding/binary"
	"testing"
)

func TestC04CDNA3Fields(t *testing.T) {
	dec := func(words ...uint32) *Inst {
		buf := make([]byte, 4*len(words))
		for i, w := range words {
			binary.LittleEndian.PutUint32(buf[4*i:], w)
		}
		d := NewDisassembler()
		d.IsCDNA3 = true
		inst, err := d.Decode(buf)
		if err != nil {
			t.Fatal(err)
		}
		return inst
	}
	// BF8C4F70 is s_waitcnt vmcnt(16) (shipped in the gfx942 stencil2d kernel)
	if inst := dec(0xBF8C4F70); inst.VMCNT != 16 {
		t.Errorf("s_waitcnt 0x4F70 on CDNA3: vmcnt = %d, want 16 (bits 15:14 are vmcnt[5:4])", inst.VMCNT)
	}
	// s_waitcnt lgkmcnt(0) leaves vmcnt at "no wait" = 63
	if inst := dec(0xBF8CC07F); inst.VMCNT != 63 {
		t.Errorf("s_waitcnt lgkmcnt(0) on CDNA3: vmcnt = %d, want 63 (no wait)", inst.VMCNT)
	}
	// s_load_dword s5, s[2:3], -0x4: SMEM op 0, IMM=1, 21-bit signed offset 0x1FFFFC
	inst := dec(0xC0000000|1<<17|5<<6|1, 0x1FFFFC)
	if inst.Offset == nil || inst.Offset.IntValue != -4 {
		t.Errorf("s_load_dword with offset field 0x1FFFFC on CDNA3: offset = %v, want -4 (signed 21 bits)", inst.Offset.IntValue)
	}
}

// Scalar operand codes above 101 in fields that were turned into s<code> (R04.21).
func TestC04ScalarOperandCodes(t *testing.T) {
	dec := func(words ...uint32) *Inst {
		buf := make([]byte, 4*len(words))
		for i, w := range words {
			binary.LittleEndian.PutUint32(buf[4*i:], w)
		}
		d := NewDisassembler()
		d.IsCDNA3 = true
		inst, err := d.Decode(buf)
		if err != nil {
			t.Fatal(err)
		}
		return inst
	}
	// v_or_b32_sdwa v2, vcc_hi, v1 (S0 = 1, SRC0 = 107)
	inst := dec(uint32(20)<<25|2<<17|1<<9|249, uint32(107)|6<<8|6<<16|1<<23|6<<24)
	if inst.Src0.Register == nil || inst.Src0.Register.RegType != VCCHI {
		t.Errorf("SDWA scalar source 107 decodes as %s, want vcc_hi", inst.Src0.String())
	}
	// s_load_dword s5, vcc, 0x0: SBASE = 53 (106 / 2)
	inst = dec(0xC0000000|1<<17|5<<6|53, 0)
	if inst.Base.Register == nil || inst.Base.Register.RegType != VCCLO || inst.Base.RegCount != 2 {
		t.Errorf("SMEM base code 106 decodes as %s, want vcc", inst.Base.String())
	}
	// s_load_dword s5, s[2:3], m0 (IMM = 0, offset register 124)
	inst = dec(0xC0000000|5<<6|1, 124)
	if inst.Offset.Register == nil || inst.Offset.Register.RegType != M0 {
		t.Errorf("SMEM offset register 124 decodes as %s, want m0", inst.Offset.String())
	}
}

// v_readlane_b32 writes an SGPR (R04.22).
func TestC04ReadlaneDestination(t *testing.T) {
	buf := make([]byte, 8)
	// VOP3a: v_readlane_b32 s5, v1, s2  (opcode 649 = 0x289)
	binary.LittleEndian.PutUint32(buf, 0xD0000000|649<<16|5)
	binary.LittleEndian.PutUint32(buf[4:], 0x101|2<<9)
	inst, err := NewDisassembler().Decode(buf)
	if err != nil {
		t.Fatal(err)
	}
	if inst.Dst.Register == nil || !inst.Dst.Register.IsSReg() || inst.Dst.Register.RegIndex() != 5 {
		t.Errorf("%s decodes its destination as %s, want s5", inst.InstName, inst.Dst.String())
	}
}
