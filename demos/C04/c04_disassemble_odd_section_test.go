package insts

import (
	"bytes"
	"debug/elf"
	"encoding/binary"
	"io"
	"testing"
)

// The section disassembler advanced by four bytes after an undecodable word knowing only that
// len(buf) > 0: a .text section whose size is not a multiple of four ended in a slice-bounds
// panic. It now stops at the tail.
func TestC04DisassembleOddSection(t *testing.T) {
	// s_endpgm followed by two stray bytes
	text := []byte{0x00, 0x00, 0x81, 0xBF, 0x01, 0x02}

	const textOff = 0x100
	shstrtab := []byte("\x00.text\x00.shstrtab\x00")
	shstrOff := uint64(textOff + len(text))
	shOff := (shstrOff + uint64(len(shstrtab)) + 7) &^ 7
	hdr := elf.Header64{Type: uint16(elf.ET_DYN), Machine: 224, Version: 1, Shoff: shOff,
		Ehsize: 64, Shentsize: 64, Shnum: 3, Shstrndx: 2}
	copy(hdr.Ident[:], []byte{0x7f, 'E', 'L', 'F', 2, 1, 1, 64})
	sections := []elf.Section64{
		{},
		{Name: 1, Type: uint32(elf.SHT_PROGBITS), Flags: uint64(elf.SHF_ALLOC | elf.SHF_EXECINSTR),
			Off: textOff, Size: uint64(len(text)), Addralign: 4},
		{Name: 7, Type: uint32(elf.SHT_STRTAB), Off: shstrOff, Size: uint64(len(shstrtab)), Addralign: 1},
	}
	buf := new(bytes.Buffer)
	_ = binary.Write(buf, binary.LittleEndian, &hdr)
	buf.Write(make([]byte, textOff-buf.Len()))
	buf.Write(text)
	buf.Write(shstrtab)
	buf.Write(make([]byte, int(shOff)-buf.Len()))
	for i := range sections {
		_ = binary.Write(buf, binary.LittleEndian, &sections[i])
	}
	f, err := elf.NewFile(bytes.NewReader(buf.Bytes()))
	if err != nil {
		t.Fatalf("synthetic ELF is not well-formed: %v", err)
	}

	defer func() {
		if r := recover(); r != nil {
			t.Fatalf("Disassemble panicked on a section of %d bytes: %v", len(text), r)
		}
	}()
	NewDisassembler().Disassemble(f, "odd.hsaco", io.Discard)
}
