package insts

import (
	"encoding/binary"
	"testing"
)

// The 64-bit FLAT atomics (opcodes 96..108) use register pairs for DATA and VDST,
// compare-and-swap twice as many registers for DATA (source and comparand).
func TestC04FlatAtomicOperandWidths(t *testing.T) {
	cases := []struct {
		opcode    uint32
		name      string
		data, dst int
	}{
		{66, "flat_atomic_add", 1, 1},
		{65, "flat_atomic_cmpswap", 2, 1},
		{98, "flat_atomic_add_x2", 2, 2},
		{96, "flat_atomic_swap_x2", 2, 2},
		{108, "flat_atomic_dec_x2", 2, 2},
		{97, "flat_atomic_cmpswap_x2", 4, 2},
	}
	norm := func(k int) int {
		if k == 0 {
			return 1
		}
		return k
	}
	for _, c := range cases {
		buf := make([]byte, 8)
		binary.LittleEndian.PutUint32(buf, 0xDC000000|c.opcode<<18|1<<16) // GLC: returns the old value
		binary.LittleEndian.PutUint32(buf[4:], 0x08007F00|0x0200|0x02)     // vdst v8, saddr off, data v2, addr v[2:3]
		inst, err := NewDisassembler().Decode(buf)
		if err != nil {
			t.Fatalf("%s: %v", c.name, err)
		}
		if inst.InstName != c.name {
			t.Fatalf("opcode %d decodes as %s, want %s", c.opcode, inst.InstName, c.name)
		}
		if norm(inst.Data.RegCount) != c.data || norm(inst.Dst.RegCount) != c.dst {
			t.Errorf("%s: DATA has %d register(s) and VDST %d, want %d and %d",
				c.name, norm(inst.Data.RegCount), norm(inst.Dst.RegCount), c.data, c.dst)
		}
	}
}
