package insts

// cp c04_widths_test.go <tree>/amd/insts/ && cd <tree>/amd/insts &&
// go test -count=1 -run TestC04Widths $(ls *.go | grep -v _test.go) c04_widths_test.go
//
// Operands whose width the mnemonic fixes (R04.17, R04.18). Each sub-test fails before
// the "fix:" commit named in it and passes after.

import (
	"encoding/binary"
	"testing"
)

func c04decode(t *testing.T, words ...uint32) *Inst {
	buf := make([]byte, 4*len(words))
	for i, w := range words {
		binary.LittleEndian.PutUint32(buf[4*i:], w)
	}
	inst, err := NewDisassembler().Decode(buf)
	if err != nil {
		t.Fatal(err)
	}
	return inst
}

func TestC04Widths(t *testing.T) {
	t.Run("v_subb_u32_e64 has a 64-bit carry-in operand (VOP3b row 285)", func(t *testing.T) {
		// v_subb_u32_e64 v1, vcc, v2, v3, vcc
		inst := c04decode(t, 0xD1000000|285<<16|106<<8|1, 0x102|0x103<<9|106<<18)
		if inst.Src2 == nil {
			t.Fatalf("%s: the carry-in operand is not decoded (Src2 == nil); the ALU handlers dereference it", inst.InstName)
		}
		if inst.Src2.RegCount != 2 {
			t.Errorf("%s: the carry-in is a 64-bit lane mask, RegCount = %d", inst.InstName, inst.Src2.RegCount)
		}
	})
	t.Run("v_add_u32_e64 has no third source (VOP3b row 281)", func(t *testing.T) {
		inst := c04decode(t, 0xD1000000|281<<16|106<<8|1, 0x102|0x103<<9)
		if inst.Src2 != nil {
			t.Errorf("%s decodes a third source %s from bits that are not a field of the instruction", inst.InstName, inst.Src2.String())
		}
	})
	t.Run("v_cmp_lt_u64 e32 compares register pairs (827bdc8a)", func(t *testing.T) {
		// VOPC: 0111110 op[24:17] vsrc1[16:9] src0[8:0]
		inst := c04decode(t, 0x7C000000|0xe9<<17|4<<9|0x102)
		if inst.Src0.RegCount != 2 || inst.Src1.RegCount != 2 {
			t.Errorf("%s: sources decoded with %d and %d registers, want 2 and 2", inst.InstName, inst.Src0.RegCount, inst.Src1.RegCount)
		}
	})
	t.Run("v_trunc_f64 e32 works on register pairs (2266b0a1)", func(t *testing.T) {
		// VOP1: 0111111 vdst[24:17] op[16:9] src0[8:0]
		inst := c04decode(t, 0x7E000000|2<<17|23<<9|0x104)
		if inst.Dst.RegCount != 2 || inst.Src0.RegCount != 2 {
			t.Errorf("%s: dst %d registers, src %d registers, want 2 and 2", inst.InstName, inst.Dst.RegCount, inst.Src0.RegCount)
		}
	})
}

// DS rows name their operands (R04.24).
func TestC04DSOperands(t *testing.T) {
	// DS: 110110 op[24:17] gds[16] offset1[15:8] offset0[7:0] ; vdst[63:56] data1[55:48] data0[47:40] addr[39:32]
	// ds_read_u8 v5, v1 (opcode 58)
	inst := c04decode(t, 0xD8000000|58<<17, 5<<24|1)
	if inst.Dst == nil {
		t.Errorf("%s decodes without a destination (the printer dereferences it)", inst.InstName)
	}
	// ds_write_b64 v1, v[2:3] (opcode 77)
	inst = c04decode(t, 0xD8000000|77<<17, 2<<8|1)
	if inst.Data == nil || inst.Data.RegCount != 2 {
		t.Errorf("%s decodes without its 64-bit data operand", inst.InstName)
	}
	// ds_add_rtn_u32 v4, v1, v2 (opcode 32)
	inst = c04decode(t, 0xD8000000|32<<17, 4<<24|2<<8|1)
	if inst.Data == nil || inst.Dst == nil {
		t.Errorf("%s decodes without data / destination", inst.InstName)
	}
}
