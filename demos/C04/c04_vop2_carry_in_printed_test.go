package insts

import (
	"encoding/binary"
	"testing"
)

// The carry-in VOP2 instructions name VCC twice: behind the destination (carry-out) and behind
// the sources (carry-in). v_subbrev_u32 (opcode 30) lost the second one and printed like the
// carry-out-only v_subrev_u32.
func TestC04VOP2CarryInPrinted(t *testing.T) {
	cases := []struct {
		word uint32
		want string
	}{
		// VOP2: [30:25]=opcode, [24:17]=vdst, [16:9]=vsrc1, [8:0]=src0 (256+n = vn)
		{28<<25 | 0<<17 | 2<<9 | 257, "v_addc_u32_e32 v0, vcc, v1, v2, vcc"},
		{29<<25 | 0<<17 | 2<<9 | 257, "v_subb_u32_e32 v0, vcc, v1, v2, vcc"},
		{30<<25 | 0<<17 | 2<<9 | 257, "v_subbrev_u32 v0, vcc, v1, v2, vcc"},
	}
	for _, c := range cases {
		buf := make([]byte, 4)
		binary.LittleEndian.PutUint32(buf, c.word)
		inst, err := NewDisassembler().Decode(buf)
		if err != nil {
			t.Fatal(err)
		}
		if got := NewInstPrinter(nil).Print(inst); got != c.want {
			t.Errorf("%08x (%s) prints as %q, want %q", c.word, inst.InstName, got, c.want)
		}
	}
}
