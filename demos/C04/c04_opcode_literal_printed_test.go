package insts

import (
	"encoding/binary"
	"strings"
	"testing"
)

// The literal K of v_madmk_f32 / v_fmamk_f32 (D = S0 * K + S1) and the 32-bit
// literal of s_setreg_imm32_b32 are operands of the instruction: the
// disassembly has to show them, otherwise instructions that differ only in the
// literal print alike.
func TestC04OpcodeSpecificLiteralIsPrinted(t *testing.T) {
	cases := []struct {
		name  string
		words []uint32
		want  string
	}{
		// v_madmk_f32 v3, v7, 0x40490fdb, v5
		{"v_madmk_f32", []uint32{23<<25 | 3<<17 | 5<<9 | (256 + 7), 0x40490fdb}, "0x40490fdb"},
		// v_madak_f32 v3, v7, v5, 0x40490fdb (control: printed before the repair too)
		{"v_madak_f32", []uint32{24<<25 | 3<<17 | 5<<9 | (256 + 7), 0x40490fdb}, "0x40490fdb"},
		// s_setreg_imm32_b32 hwreg(1, 0, 4), 0xdeadbeef
		{"s_setreg_imm32_b32", []uint32{0xB<<28 | 20<<23 | 0x1801, 0xdeadbeef}, "0xdeadbeef"},
	}
	for _, c := range cases {
		buf := make([]byte, 8)
		binary.LittleEndian.PutUint32(buf, c.words[0])
		binary.LittleEndian.PutUint32(buf[4:], c.words[1])
		inst, err := NewDisassembler().Decode(buf)
		if err != nil {
			t.Fatalf("%s: %v", c.name, err)
		}
		if !strings.HasPrefix(inst.InstName, c.name) {
			t.Fatalf("decoded %s, want %s", inst.InstName, c.name)
		}
		text := NewInstPrinter(nil).Print(inst)
		if !strings.Contains(text, c.want) {
			t.Errorf("%s prints as %q: the literal %s is missing", c.name, text, c.want)
		}
	}
}
