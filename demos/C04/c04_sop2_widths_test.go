package insts

import (
	"encoding/binary"
	"testing"
)

// SOP2: a 64-bit instruction works on SGPR pairs, but the shift amount of the 64-bit shifts,
// the offset-and-width operand of the 64-bit bit-field extracts and both sources of s_bfm_b64
// are single 32-bit SGPRs.
func TestC04SOP2OperandWidths(t *testing.T) {
	norm := func(k int) int {
		if k == 0 {
			return 1
		}
		return k
	}
	cases := []struct {
		opcode      uint32
		name        string
		dst, s0, s1 int
	}{
		{13, "s_and_b64", 2, 2, 2},
		{29, "s_lshl_b64", 2, 2, 1},
		{31, "s_lshr_b64", 2, 2, 1},
		{33, "s_ashr_i64", 2, 2, 1},
		{35, "s_bfm_b64", 2, 1, 1},
		{39, "s_bfe_u64", 2, 2, 1},
		{40, "s_bfe_i64", 2, 2, 1},
		{28, "s_lshl_b32", 1, 1, 1},
	}
	for _, c := range cases {
		buf := make([]byte, 4)
		// SOP2: [31:30]=10, op[29:23], sdst[22:16]=0 (s0), ssrc1[15:8]=4 (s4), ssrc0[7:0]=2 (s2)
		binary.LittleEndian.PutUint32(buf, 0x80000000|c.opcode<<23|0<<16|4<<8|2)
		inst, err := NewDisassembler().Decode(buf)
		if err != nil {
			t.Fatalf("%s: %v", c.name, err)
		}
		if inst.InstName != c.name {
			t.Fatalf("opcode %d decodes as %s, want %s", c.opcode, inst.InstName, c.name)
		}
		got := [3]int{norm(inst.Dst.RegCount), norm(inst.Src0.RegCount), norm(inst.Src1.RegCount)}
		want := [3]int{c.dst, c.s0, c.s1}
		if got != want {
			t.Errorf("%s: (SDST, SSRC0, SSRC1) use %v registers, the ISA says %v; printed as %q", c.name, got, want, NewInstPrinter(nil).Print(inst))
		}
	}
}
