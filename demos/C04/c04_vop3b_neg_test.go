package insts

import (
	"encoding/binary"
	"testing"
)

// v_div_scale_f32 v0, s[2:3], -v1, v2, v3 (VOP3b, NEG = 1): D1E00200 240E0501.
// The raw field and the per-source flag describe the same modifier and the
// disassembly shows the sign.
func TestC04VOP3bNegFlags(t *testing.T) {
	buf := make([]byte, 8)
	binary.LittleEndian.PutUint32(buf, 0xD1E00200)
	binary.LittleEndian.PutUint32(buf[4:], 0x240E0501)
	inst, err := NewDisassembler().Decode(buf)
	if err != nil {
		t.Fatal(err)
	}
	if inst.FormatType != VOP3b {
		t.Fatalf("format %v", inst.FormatType)
	}
	if inst.Neg != 1 {
		t.Fatalf("Neg = %d", inst.Neg)
	}
	if !inst.Src0Neg || inst.Src1Neg || inst.Src2Neg {
		t.Errorf("Neg = %03b but flags are %v %v %v", inst.Neg, inst.Src0Neg, inst.Src1Neg, inst.Src2Neg)
	}
	s := NewInstPrinter(nil).Print(inst)
	if want := "v_div_scale_f32 v0, s[2:3], -v1, v2, v3"; s != want {
		t.Errorf("printed %q, want %q", s, want)
	}
}
