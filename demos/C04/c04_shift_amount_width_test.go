package insts

import (
	"encoding/binary"
	"testing"
)

// The shift amount of the 64-bit VOP3 shifts, the segment select of v_trig_preop_f64 and the bit
// index of s_bitset0/1_b64 are single registers. The table had them 64 bits wide, so a register
// operand there was decoded and printed as a pair.
func TestC04ShiftAmountIsOneRegister(t *testing.T) {
	vop3 := func(op, vdst, src0, src1 uint32) []byte {
		buf := make([]byte, 8)
		binary.LittleEndian.PutUint32(buf, 0xD0000000|op<<16|vdst)
		binary.LittleEndian.PutUint32(buf[4:], src1<<9|src0)
		return buf
	}
	sop1 := func(op, sdst, ssrc0 uint32) []byte {
		buf := make([]byte, 4)
		binary.LittleEndian.PutUint32(buf, 0xBE800000|sdst<<16|op<<8|ssrc0)
		return buf
	}
	cases := []struct {
		buf  []byte
		want string
	}{
		{vop3(655, 0, 256+4, 256+2), "v_lshlrev_b64 v[0:1], v4, v[2:3]"},
		{vop3(656, 0, 256+4, 256+2), "v_lshrrev_b64 v[0:1], v4, v[2:3]"},
		{vop3(657, 0, 256+4, 256+2), "v_ashrrev_i64 v[0:1], v4, v[2:3]"},
		{vop3(658, 0, 256+2, 256+4), "v_trig_preop_f64 v[0:1], v[2:3], v4"},
		{sop1(25, 0, 4), "s_bitset0_b64 s[0:1], s4"},
		{sop1(27, 0, 4), "s_bitset1_b64 s[0:1], s4"},
	}
	for _, c := range cases {
		inst, err := NewDisassembler().Decode(c.buf)
		if err != nil {
			t.Fatal(err)
		}
		if got := NewInstPrinter(nil).Print(inst); got != c.want {
			t.Errorf("% x (%s) prints as %q, want %q", c.buf, inst.InstName, got, c.want)
		}
	}
}
