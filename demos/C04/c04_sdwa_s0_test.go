package insts

// cp c04_sdwa_s0_test.go <tree>/amd/insts/ && cd <tree>/amd/insts &&
// go test -count=1 -run TestC04SDWAScalarSrc0 $(ls *.go | grep -v _test.go) c04_sdwa_s0_test.go
//
// GFX9 SDWA dword: SRC0[7:0] ... S0[23] (SRC0 is an SGPR) ... S1[31] (SRC1 is an SGPR).

import (
	"encoding/binary"
	"testing"
)

func TestC04SDWAScalarSrc0(t *testing.T) {
	// v_or_b32_sdwa v2, s4, v1 dst_sel:DWORD src0_sel:DWORD src1_sel:DWORD
	w0 := uint32(20)<<25 | 2<<17 | 1<<9 | 249
	w1 := uint32(4) | 6<<8 | 6<<16 | 1<<23 | 6<<24
	buf := make([]byte, 8)
	binary.LittleEndian.PutUint32(buf, w0)
	binary.LittleEndian.PutUint32(buf[4:], w1)
	d := NewDisassembler()
	d.IsCDNA3 = true
	inst, err := d.Decode(buf)
	if err != nil {
		t.Fatal(err)
	}
	if inst.Src0.OperandType != RegOperand || inst.Src0.Register == nil || !inst.Src0.Register.IsSReg() || inst.Src0.Register.RegIndex() != 4 {
		t.Errorf("SRC0 with S0=1 decodes as %s, want s4", inst.Src0.String())
	}
	// bit 30 is reserved: it does not turn a VGPR source into an SGPR
	binary.LittleEndian.PutUint32(buf[4:], uint32(4)|6<<8|6<<16|6<<24|1<<30)
	inst, err = d.Decode(buf)
	if err != nil {
		t.Fatal(err)
	}
	if inst.Src0.Register == nil || !inst.Src0.Register.IsVReg() {
		t.Errorf("SRC0 with S0=0 decodes as %s, want v4", inst.Src0.String())
	}
}
