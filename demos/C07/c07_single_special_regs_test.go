// Package c07demo: decoded instructions that name one half of VCC / EXEC (the decoder attaches
// register count 0 to single registers) executed on the emulation register store.
//
//	mkdir <tree>/amd/emu/c07demo && cp c07_single_special_regs_test.go <tree>/amd/emu/c07demo/
//	go test -count=1 -v ./amd/emu/c07demo/
package c07demo

import (
	"encoding/binary"
	"testing"

	"github.com/sarchlab/mgpusim/v4/amd/emu"
	"github.com/sarchlab/mgpusim/v4/amd/insts"
)

type wfState struct {
	*emu.Wavefront
	inst *insts.Inst
}

func (s *wfState) Inst() *insts.Inst { return s.inst }

func decode(t *testing.T, w uint32) *insts.Inst {
	t.Helper()
	buf := make([]byte, 4)
	binary.LittleEndian.PutUint32(buf, w)
	inst, err := insts.NewDisassembler().Decode(buf)
	if err != nil {
		t.Fatal(err)
	}
	return inst
}

// s_mov_b32 sdst, ssrc0 : SOP1 0xBE800000 | sdst<<16 | ssrc0
func smov(sdst, ssrc0 uint32) uint32 { return 0xBE800000 | sdst<<16 | ssrc0 }

func run(t *testing.T, w uint32, prep func(wf *emu.Wavefront)) (wf *emu.Wavefront, panicked interface{}) {
	inst := decode(t, w)
	wf = emu.NewWavefront(nil)
	prep(wf)
	defer func() { panicked = recover() }()
	emu.NewALU(nil).Run(&wfState{wf, inst})
	return wf, nil
}

func TestC07MoveToExecLo(t *testing.T) {
	wf, p := run(t, smov(126, 0), func(wf *emu.Wavefront) {
		binary.LittleEndian.PutUint32(wf.SRegFile[0:], 0x11111111)
		wf.SetEXEC(0xaaaaaaaabbbbbbbb)
	})
	if p != nil {
		t.Fatalf("s_mov_b32 exec_lo, s0 panics in emulation: %v", p)
	}
	if wf.EXEC() != 0xaaaaaaaa11111111 {
		t.Errorf("EXEC = %#x after s_mov_b32 exec_lo, s0; want 0xaaaaaaaa11111111", wf.EXEC())
	}
}

func TestC07MoveFromVccHi(t *testing.T) {
	wf, p := run(t, smov(0, 107), func(wf *emu.Wavefront) { wf.SetVCC(0xaaaaaaaabbbbbbbb) })
	if p != nil {
		t.Fatalf("s_mov_b32 s0, vcc_hi panics: %v", p)
	}
	if got := binary.LittleEndian.Uint32(wf.SRegFile[0:]); got != 0xaaaaaaaa {
		t.Errorf("s0 = %#x after s_mov_b32 s0, vcc_hi with VCC = 0xaaaaaaaabbbbbbbb; want 0xaaaaaaaa", got)
	}
}
