// Copy this directory to <tree>/c19demo/<name>/ and run from the tree root:
//
//	export PATH=/opt/veriftools/go1.26.8/bin:$PATH GOTOOLCHAIN=local GOFLAGS=-mod=mod GOPROXY=off GOSUMDB=off
//	go test ./c19demo/emu_read_16_dwords/ -count=1 -v
//
// Property C07: a value written to a register operand is read back unchanged at
// the same width (widths 1-16 dwords); emulation and timing register stores
// give identical answers for every access.
//
// Defect: emu.Wavefront.ReadReg stages the result in `var buf [32]byte` and
// slices it to ByteSize*RegCount. The decoder produces 16-dword operands
// (decodeSMEM: s_load_dwordx16 / s_buffer_load_dwordx16 set Data.RegCount=16),
// emu.Wavefront.WriteReg stores all 64 bytes, but reading the same operand back
// (ReadOperandBytes -> ReadReg) panics for every width above 8 dwords. The
// timing store (cu.CURegFileAccessor.ReadReg) sizes its buffer from the operand
// and answers correctly.
package emu_read_16_dwords

import (
	"bytes"
	"fmt"
	"testing"

	"github.com/sarchlab/akita/v4/sim"
	"github.com/sarchlab/mgpusim/v4/amd/emu"
	"github.com/sarchlab/mgpusim/v4/amd/insts"
	"github.com/sarchlab/mgpusim/v4/amd/kernels"
	"github.com/sarchlab/mgpusim/v4/amd/timing/cu"
	"github.com/sarchlab/mgpusim/v4/amd/timing/wavefront"
)

type store interface {
	ReadOperandBytes(operand *insts.Operand, laneID int, byteCount int) []byte
	WriteOperandBytes(operand *insts.Operand, laneID int, data []byte)
}

func readBack(st store, op *insts.Operand, data []byte) (got []byte, err error) {
	defer func() {
		if r := recover(); r != nil {
			err = fmt.Errorf("panic: %v", r)
		}
	}()
	st.WriteOperandBytes(op, 0, data)
	return st.ReadOperandBytes(op, 0, len(data)), nil
}

func TestWideScalarOperandsReadBack(t *testing.T) {
	emuWf := emu.NewWavefront(kernels.NewWavefront())

	theCU := cu.MakeBuilder().
		WithEngine(sim.NewSerialEngine()).WithFreq(1 * sim.GHz).Build("CU")
	timingWf := wavefront.NewWavefront(kernels.NewWavefront())
	timingWf.SRegOffset = 256
	timingWf.RegAccessor = &cu.CURegFileAccessor{CU: theCU, WF: timingWf}

	// the widths decodeSMEM assigns to inst.Data
	for _, width := range []int{1, 2, 4, 8, 16} {
		op := insts.NewSRegOperand(16, 16, width) // s[16:16+width-1]
		data := make([]byte, width*4)
		for i := range data {
			data[i] = byte(0x40 + i)
		}

		for _, s := range []struct {
			name string
			st   store
		}{{"timing", timingWf}, {"emulation", emuWf}} {
			got, err := readBack(s.st, op, data)
			switch {
			case err != nil:
				t.Errorf("C07: %d dwords written to %s must be read back "+
					"unchanged at the same width; the %s register store "+
					"fails with %v", width, op.String(), s.name, err)
			case !bytes.Equal(got, data):
				t.Errorf("C07: %s store, %s: wrote %x, read %x",
					s.name, op.String(), data, got)
			default:
				t.Logf("%-9s %-9s ok", s.name, op.String())
			}
		}
	}
}
