// Copy this directory to <tree>/c19demo/<name>/ and run from the tree root:
//
//	export PATH=/opt/veriftools/go1.26.8/bin:$PATH GOTOOLCHAIN=local GOFLAGS=-mod=mod GOPROXY=off GOSUMDB=off
//	go test ./c19demo/timing_smem_load_to_vcc/ -count=1 -v
//
// Property C07: a value written to VCC (as a pair) is read back unchanged; no
// write disturbs any other register or wavefront; emulation and timing register
// stores give identical answers.
//
// Defect: in timing mode a scalar load is not written through
// Wavefront.WriteOperandBytes (as the emulator does, amd/emu/alu.go
// runSLOADDWORDX2 -> WriteOperandBytes(inst.Data, ...)), but by
// cu.ScalarUnit.executeSMEMLoad + ComputeUnit.handleScalarDataLoadReturn, which
// assume the destination is an SGPR:
//
//	regIndex := inst.Data.Register.RegIndex()        // -1 for vcc/exec/m0
//	DstSGPR:   insts.SReg(regIndex + ...)            // Regs[S0-1] == v255 (!)
//	cu.SRegFile.Write(RegisterAccess{Reg: DstSGPR, WaveOffset: wf.SRegOffset})
//
// For `s_load_dwordx2 vcc, s[2:3], 0x0` (a legal instruction the decoder
// produces as Data = vcclo, RegCount 2) the data is written to the scalar
// register file at wf.SRegOffset + 255*4, i.e. into the SGPRs of another
// wavefront, and VCC is left unchanged.
package timing_smem_load_to_vcc

import (
	"encoding/binary"
	"testing"

	"github.com/sarchlab/akita/v4/mem/mem"
	"github.com/sarchlab/akita/v4/sim"
	"github.com/sarchlab/akita/v4/sim/directconnection"
	"github.com/sarchlab/mgpusim/v4/amd/insts"
	"github.com/sarchlab/mgpusim/v4/amd/kernels"
	"github.com/sarchlab/mgpusim/v4/amd/timing/cu"
	"github.com/sarchlab/mgpusim/v4/amd/timing/wavefront"
)

// fakeScalarMem answers every read with bytes of a fixed pattern.
type fakeScalarMem struct {
	*sim.TickingComponent
	port    sim.Port
	pattern []byte
	served  int
}

func (m *fakeScalarMem) Tick() bool {
	msg := m.port.PeekIncoming()
	if msg == nil {
		return false
	}
	req := msg.(*mem.ReadReq)
	rsp := mem.DataReadyRspBuilder{}.
		WithSrc(m.port.AsRemote()).
		WithDst(req.Src).
		WithRspTo(req.ID).
		WithData(append([]byte{}, m.pattern[:req.AccessByteSize]...)).
		Build()
	if err := m.port.Send(rsp); err != nil {
		return false
	}
	m.port.RetrieveIncoming()
	m.served++
	return true
}

func newWf(theCU *cu.ComputeUnit, sregOffset int) *wavefront.Wavefront {
	wf := wavefront.NewWavefront(kernels.NewWavefront())
	wf.SIMDID = 0
	wf.SRegOffset = sregOffset
	wf.RegAccessor = &cu.CURegFileAccessor{CU: theCU, WF: wf}
	return wf
}

func TestTimingScalarLoadIntoVCC(t *testing.T) {
	engine := sim.NewSerialEngine()
	theCU := cu.MakeBuilder().
		WithEngine(engine).
		WithFreq(1 * sim.GHz).
		WithLog2CachelineSize(6).
		Build("CU")

	m := &fakeScalarMem{pattern: []byte{
		0x88, 0x77, 0x66, 0x55, 0x44, 0x33, 0x22, 0x11}}
	m.TickingComponent = sim.NewTickingComponent("SMem", engine, 1*sim.GHz, m)
	m.port = sim.NewPort(m, 4, 4, "SMem.Top")
	conn := directconnection.MakeBuilder().
		WithEngine(engine).WithFreq(1 * sim.GHz).Build("Conn")
	conn.PlugIn(theCU.ToScalarMem)
	conn.PlugIn(m.port)
	theCU.ScalarMem = m.port

	// s_load_dwordx2 vcc, s[2:3], 0x0
	// SMEM: [5:0] sbase=1, [12:6] sdata=106 (vcc_lo), [17] imm=1, [25:18] op=1,
	// [31:26]=0b110000; second dword: offset 0.
	raw := make([]byte, 8)
	binary.LittleEndian.PutUint32(raw, 1|106<<6|1<<17|1<<18|0x30<<26)
	inst, err := insts.NewDisassembler().Decode(raw)
	if err != nil {
		t.Fatal(err)
	}
	if inst.FormatType != insts.SMEM || inst.Opcode != 1 ||
		inst.Data.Register.RegType != insts.VCCLO || inst.Data.RegCount != 2 {
		t.Fatalf("unexpected decoding: %s", insts.NewInstPrinter(nil).Print(inst))
	}
	t.Logf("instruction under test: %s", insts.NewInstPrinter(nil).Print(inst))

	// The loading wavefront owns the first 16-SGPR granule of the CU's scalar
	// register file; the victim owns the 16th granule (the CP hands out
	// SGPROffset = granule*64, see resource.CUResourceImpl.withinSGPRLimitation).
	loader := newWf(theCU, 0)
	victim := newWf(theCU, 15*16*4)

	const oldVCC = 0x0123456789abcdef
	loader.SetVCC(oldVCC)
	loader.WriteOperand(insts.NewSRegOperand(2, 2, 2), 0, 0x1000) // base
	for i := 0; i < 32; i++ {
		victim.WriteOperand(insts.NewSRegOperand(i, i, 1), 0,
			uint64(0xA5000000+i))
	}

	loader.SetDynamicInst(wavefront.NewInst(inst))
	su := theCU.ScalarUnit.(*cu.ScalarUnit)
	su.AcceptWave(loader)
	theCU.TickLater()
	if err := engine.Run(); err != nil {
		t.Fatal(err)
	}

	if m.served != 1 || loader.OutstandingScalarMemAccess != 0 {
		t.Fatalf("load did not complete: served=%d outstanding=%d",
			m.served, loader.OutstandingScalarMemAccess)
	}

	const want = 0x1122334455667788
	failed := false

	got := loader.ReadOperand(inst.Data, 0)
	if got != want {
		failed = true
		t.Errorf("C07: after `s_load_dwordx2 vcc, ...` returned 0x%016x, "+
			"reading the vcc pair must give that value (the emulator's "+
			"register store does); timing mode reads 0x%016x (old value "+
			"0x%016x)", uint64(want), got, uint64(oldVCC))
	}

	for i := 0; i < 32; i++ {
		got := victim.ReadOperand(insts.NewSRegOperand(i, i, 1), 0)
		if got != uint64(0xA5000000+i) {
			failed = true
			t.Errorf("C07: no write may disturb another wavefront's "+
				"registers, but s%d of the wavefront at SGPROffset %d "+
				"changed from 0x%08x to 0x%08x after a different wavefront "+
				"(SGPROffset 0) loaded into vcc",
				i, victim.SRegOffset, 0xA5000000+i, got)
		}
	}

	if !failed {
		t.Log("vcc loaded, victim undisturbed")
	}
}
