#!/bin/bash
# Robustness run (DESIGN 9.7): rewrites a scratch copy of /repo under /var/tmp/robust, runs every quick check on it and
# compares verdicts and per-rule counts with /verif/evidence (run all quick checks on /repo first). Not part of any check.
# usage: robust2.sh <mode>
export PATH=/opt/veriftools/go1.26.8/bin:$PATH GOTOOLCHAIN=local GOFLAGS=-mod=mod GOPROXY=off GOSUMDB=off; unset GOWORK
mode=$1
mkdir -p /var/tmp/robust; rm -rf /var/tmp/robust/repo && rsync -a --exclude .git /repo/ /var/tmp/robust/repo/ || exit 1
(cd /verif && go build -o /var/tmp/robust/rewrite-bin ./tools/rewrite) || exit 1
(cd /var/tmp/robust/repo && /var/tmp/robust/rewrite-bin /var/tmp/robust/repo $mode && go build ./... 2>&1 | tail -3)
cd /verif
for p in C02 C03 C04 C05 C06 C07 C08 C09 C10 C11 C12 C13 C14 C15 C16 C17 C18 C19 C20; do VERIF_REPO=/var/tmp/robust/repo VERIF_OUT=/var/tmp/robust/out ./check $p quick 2>&1 | grep -v KNOWN | grep "violation\|floor\|undecided\|anchor" | cut -c1-230; done
echo "== $mode: rule count differences"
python3 /verif/tools/cmp_evidence.py /verif/evidence /var/tmp/robust/out/evidence
