#!/usr/bin/env python3
"""mut.py [--keep] <mutants.json> [name-filter]

Two-way validation of the checks. Each entry of the JSON list describes one
variant of /repo as textual substitutions:
  {"name","prop","kind":"mutant"|"benign","patch":"seeded/<id>/patch.diff" (optional),"edits":[{"file","old","new","nth":1}],"expect":"substring of the finding","absent":"substring of a KNOWN-FINDING line that a benign (repaired) variant must no longer print"}
The variant is applied to a scratch copy of /repo (outside /repo and /verif),
must still build, and the property's quick check is run against the copy with
VERIF_REPO/VERIF_OUT. A mutant must be reported (exit 1, finding contains
`expect`), a benign variant must pass (exit 0). Copies are removed at once.
Exit 0 iff every variant behaved as required.
"""
import json, os, shutil, subprocess, sys, tempfile
HERE = os.path.dirname(os.path.dirname(os.path.abspath(__file__)))
ENV = dict(os.environ, PATH="/opt/veriftools/go1.26.8/bin:" + os.environ["PATH"], GOTOOLCHAIN="local",
           GOFLAGS="-mod=mod", GOPROXY="off", GOSUMDB="off")
ENV.pop("GOWORK", None)
REPO = os.environ.get("VERIF_MUT_REPO", "/repo")

def run_variant(m):
    scratch = tempfile.mkdtemp(prefix="verif-mut-", dir=os.environ.get("TMPDIR", "/var/tmp"))
    try:
        repo = os.path.join(scratch, "repo")
        subprocess.check_call(["rsync", "-a", "--exclude", ".git", REPO + "/", repo + "/"])
        pkgs = set()
        if m.get("patch"):  # a unified diff (relative to /verif), applied before the textual edits
            pf = os.path.join(HERE, m["patch"])
            a = subprocess.run(["git", "apply", pf], cwd=repo, capture_output=True, text=True)
            if a.returncode != 0:
                return "EDIT-FAILED", "patch does not apply: " + a.stderr[:300]
            for l in open(pf):
                if l.startswith("+++ b/") and l.strip().endswith(".go"):
                    pkgs.add("./" + os.path.dirname(l.strip()[6:]))
        for e in m.get("edits", []):
            p = os.path.join(repo, e["file"])
            s = open(p).read()
            nth = e.get("nth", 1)
            idx = -1
            for _ in range(nth):
                idx = s.find(e["old"], idx + 1)
                if idx < 0:
                    return "EDIT-FAILED", "old text not found in " + e["file"]
            s = s[:idx] + e["new"] + s[idx + len(e["old"]):]
            open(p, "w").write(s)
            if e["file"].endswith(".go"):
                pkgs.add("./" + os.path.dirname(e["file"]))
            else:  # go.mod and the like: build one main package
                pkgs.add("./amd/samples/fir")
        b = subprocess.run(["go", "build"] + sorted(pkgs), cwd=repo, env=ENV, capture_output=True, text=True)
        if b.returncode != 0:
            return "DOES-NOT-BUILD", b.stderr[:400]
        env = dict(ENV, VERIF_REPO=repo, VERIF_OUT=os.path.join(scratch, "out"))
        r = subprocess.run([os.path.join(HERE, "check"), m["prop"], "quick"], cwd=HERE, env=env, capture_output=True, text=True)
        out = r.stdout + r.stderr
        finds = [l for l in out.splitlines() if l.startswith("  ")]
        if m.get("kind", "mutant") == "benign":
            if r.returncode == 0:
                gone = m.get("absent")
                if gone and any(gone in l for l in out.splitlines() if l.startswith("KNOWN-FINDING")):
                    return "STILL-REPORTED", "known finding " + gone + " is still printed on the repaired variant"
                return "OK-SILENT", ""
            return "FALSE-ALARM", "\n".join(finds[:4])[:700]
        if r.returncode == 1 and (not m.get("expect") or any(m["expect"] in l for l in finds)):
            return "CAUGHT", (finds[0][:240] if finds else "")
        if r.returncode == 1:
            return "CAUGHT-ELSEWHERE", "\n".join(finds[:3])[:600]
        return "MISSED", out[-300:]
    finally:
        shutil.rmtree(scratch, ignore_errors=True)

def main():
    jsonOut = None
    argv = sys.argv[1:]
    if "--json" in argv:
        i = argv.index("--json")
        jsonOut = argv[i + 1]
        argv = argv[:i] + argv[i + 2:]
    args = [a for a in argv if not a.startswith("--")]
    muts = json.load(open(args[0]))
    flt = args[1] if len(args) > 1 else ""
    bad = 0
    results = []
    for m in muts:
        if flt and flt not in m["name"] and flt != m["prop"]:
            continue
        st, info = run_variant(m)
        good = st in ("CAUGHT", "OK-SILENT")
        results.append({"name": m["name"], "kind": m.get("kind", "mutant"), "result": st, "expected_rule": m.get("expect", "")})
        if not good:
            bad += 1
        print(f"{m['prop']} {m.get('kind','mutant'):6} {m['name']}: {st}" + ("" if good else "\n    " + info.replace("\n", "\n    ")))
        sys.stdout.flush()
    if jsonOut:
        json.dump({"variants": len(results), "mutants_reported": sum(1 for r in results if r["result"] == "CAUGHT"),
                   "benign_silent": sum(1 for r in results if r["result"] == "OK-SILENT"), "failed": bad, "results": results},
                  open(jsonOut, "w"), indent=1)
    return 1 if bad else 0

sys.exit(main())
