// Command rewrite applies one behaviour-preserving source transformation to every
// non-test Go file of a copy of the repository (robustness testing of the checks: a
// transformed tree must get the same verdicts as the original).
//
//	rewrite <repo-copy> <mode>
//
// modes: add-flip   exchange the operands of every numeric a + b
//
//	incdec     i++ / i-- become i += 1 / i -= 1
//	neg-if     if c { A } else { B } becomes if !(c) { B } else { A } (no else-if chains)
//	rename-locals  every local variable, parameter and named result is renamed
//	if-switch  an if / else-if / else chain becomes a tagless switch
//	drop-else  if c { ...; return } else { B } becomes if c { ...; return }; B
//	expand-assign  x += y becomes x = x + (y)
//	parens     clarifying parentheses around nested binary operands
//	var-decl   x := v becomes var x = v
//	guard      a trailing if c { A } becomes if !(c) { return / continue }; A
//	minmax     x := A; if B < x { x = B } becomes x := min(A, B)
//	rangeint   for i := 0; i < N; i++ becomes for i := range N
//	switch-if  a small tagged switch becomes an if / else-if chain
//	extract-pred  an if condition that reads only the receiver's fields and constants becomes a call of a new one-line predicate method
//	extract-pred-args  like extract-pred for functions and methods alike, the condition's local variables become parameters of the helper
//	demorgan   !(a) introduced: a && b becomes !(!(a) || !(b)) for boolean conditions of if statements
package main

import (
	"bytes"
	"fmt"
	"go/ast"
	"go/format"
	"go/token"
	"go/types"
	"os"
	"strings"

	"golang.org/x/tools/go/packages"
)

func main() {
	dir, mode := os.Args[1], os.Args[2]
	cfg := &packages.Config{Mode: packages.NeedName | packages.NeedFiles | packages.NeedCompiledGoFiles | packages.NeedSyntax | packages.NeedTypes | packages.NeedTypesInfo | packages.NeedImports | packages.NeedDeps, Dir: dir, Env: os.Environ()}
	pkgs, err := packages.Load(cfg, "./amd/...", "./nvidia/...")
	if err != nil {
		panic(err)
	}
	changed := 0
	for _, p := range pkgs {
		for i, f := range p.Syntax {
			name := p.CompiledGoFiles[i]
			if strings.HasSuffix(name, "_test.go") || !strings.HasPrefix(name, dir) {
				continue
			}
			n := 0
			var extra []string
			if mode == "extract-pred" {
				for _, d := range f.Decls {
					fd, ok := d.(*ast.FuncDecl)
					if !ok || fd.Recv == nil || len(fd.Recv.List) != 1 || len(fd.Recv.List[0].Names) != 1 || fd.Body == nil || fd.Recv.List[0].Names[0].Name == "_" {
						continue
					}
					recv := fd.Recv.List[0].Names[0]
					recvObj := p.TypesInfo.Defs[recv]
					recvType := types.ExprString(fd.Recv.List[0].Type)
					if strings.Contains(recvType, "[") { // generic receivers: skip
						continue
					}
					ast.Inspect(fd.Body, func(node ast.Node) bool {
						if _, isLit := node.(*ast.FuncLit); isLit {
							return false
						}
						is, ok := node.(*ast.IfStmt)
						if !ok || is.Init != nil {
							return true
						}
						okCond, usesRecv := true, false
						ast.Inspect(is.Cond, func(e ast.Node) bool {
							switch x := e.(type) {
							case *ast.BinaryExpr:
								if x.Op == token.LAND || x.Op == token.LOR {
									okCond = false
								}
							case *ast.CallExpr:
								if id, isID := x.Fun.(*ast.Ident); !isID || id.Name != "len" || p.TypesInfo.Uses[id] == nil || p.TypesInfo.Uses[id].Pkg() != nil {
									okCond = false
								}
							case *ast.FuncLit, *ast.TypeAssertExpr, *ast.CompositeLit:
								okCond = false
							case *ast.UnaryExpr:
								if x.Op == token.ARROW || x.Op == token.AND {
									okCond = false
								}
							case *ast.SelectorExpr:
								// field selections only (no method values); the selected name itself is not inspected
								if sel := p.TypesInfo.Selections[x]; sel != nil && sel.Kind() != types.FieldVal {
									okCond = false
								}
							case *ast.Ident:
								obj := p.TypesInfo.Uses[x]
								switch o := obj.(type) {
								case *types.Var:
									if obj == recvObj {
										usesRecv = true
									} else if !o.IsField() {
										okCond = false // a local or a package variable
									}
								case *types.Const, *types.Nil, *types.PkgName, *types.Builtin:
								case nil:
								default:
									okCond = false
								}
							}
							return okCond
						})
						if !okCond || !usesRecv {
							return true
						}
						name := fmt.Sprintf("vrfPred%d", len(extra)+1)
						extra = append(extra, fmt.Sprintf("\nfunc (%s %s) %s() bool {\n\treturn %s\n}\n", recv.Name, recvType, name, types.ExprString(is.Cond)))
						is.Cond = &ast.CallExpr{Fun: &ast.SelectorExpr{X: ast.NewIdent(recv.Name), Sel: ast.NewIdent(name)}}
						n++
						return true
					})
				}
			}
			if mode == "extract-pred-args" {
				qual := func(q *types.Package) string {
					if q == p.Types {
						return ""
					}
					return "\x00" // a type of another package: not expressible without knowing the file's import names
				}
				for _, d := range f.Decls {
					fd, ok := d.(*ast.FuncDecl)
					if !ok || fd.Body == nil || (fd.Type.TypeParams != nil && len(fd.Type.TypeParams.List) > 0) {
						continue
					}
					if fd.Recv != nil && (len(fd.Recv.List) != 1 || strings.Contains(types.ExprString(fd.Recv.List[0].Type), "[")) {
						continue
					}
					ast.Inspect(fd.Body, func(node ast.Node) bool {
						if _, isLit := node.(*ast.FuncLit); isLit {
							return false
						}
						is, ok := node.(*ast.IfStmt)
						if !ok || is.Init != nil {
							return true
						}
						okCond := true
						var params []*types.Var
						seen := map[*types.Var]bool{}
						ast.Inspect(is.Cond, func(e ast.Node) bool {
							switch x := e.(type) {
							case *ast.BinaryExpr:
								if x.Op == token.LAND || x.Op == token.LOR {
									okCond = false
								}
							case *ast.CallExpr:
								if id, isID := x.Fun.(*ast.Ident); !isID || id.Name != "len" || p.TypesInfo.Uses[id] == nil || p.TypesInfo.Uses[id].Pkg() != nil {
									okCond = false
								}
							case *ast.FuncLit, *ast.TypeAssertExpr, *ast.CompositeLit:
								okCond = false
							case *ast.UnaryExpr:
								if x.Op == token.ARROW || x.Op == token.AND {
									okCond = false
								}
							case *ast.SelectorExpr:
								if sel := p.TypesInfo.Selections[x]; sel != nil && sel.Kind() != types.FieldVal {
									okCond = false
								}
							case *ast.Ident:
								switch o := p.TypesInfo.Uses[x].(type) {
								case *types.Var:
									if o.IsField() {
										break
									}
									if o.Parent() == nil || o.Pkg() == nil || o.Parent() == o.Pkg().Scope() {
										okCond = false // package-level variable: keep it simple
										break
									}
									if !seen[o] {
										seen[o] = true
										params = append(params, o)
									}
								case *types.Const, *types.Nil, *types.PkgName, *types.Builtin:
								case nil:
								default:
									okCond = false
								}
							}
							return okCond
						})
						if !okCond || len(params) == 0 || len(params) > 4 {
							return true
						}
						var decl, args []string
						for _, v := range params {
							ts := types.TypeString(v.Type(), qual)
							if strings.Contains(ts, "\x00") || strings.Contains(ts, "struct{") || strings.Contains(ts, "interface{") || strings.Contains(ts, "func(") {
								return true
							}
							decl = append(decl, v.Name()+" "+ts)
							args = append(args, v.Name())
						}
						name := fmt.Sprintf("vrfCond%s%d", strings.TrimSuffix(strings.ReplaceAll(strings.ReplaceAll(p.Fset.Position(f.Pos()).Filename[strings.LastIndex(p.Fset.Position(f.Pos()).Filename, "/")+1:], ".go", ""), "_", ""), "-"), len(extra)+1)
						extra = append(extra, fmt.Sprintf("\nfunc %s(%s) bool {\n\treturn %s\n}\n", name, strings.Join(decl, ", "), types.ExprString(is.Cond)))
						call := &ast.CallExpr{Fun: ast.NewIdent(name)}
						for _, a := range args {
							call.Args = append(call.Args, ast.NewIdent(a))
						}
						is.Cond = call
						n++
						return true
					})
				}
			}
			if mode == "rename-locals" {
				// every local variable, parameter and named result gets a new name (suffix Q)
				ren := func(id *ast.Ident, obj types.Object) {
					v, ok := obj.(*types.Var)
					if !ok || v.IsField() || v.Pkg() == nil || v.Parent() == nil || v.Parent() == v.Pkg().Scope() || id.Name == "_" {
						return
					}
					id.Name += "Q"
					n++
				}
				ast.Inspect(f, func(node ast.Node) bool {
					// switch x := y.(type): x is defined implicitly once per clause
					if ts, ok := node.(*ast.TypeSwitchStmt); ok {
						if as, ok := ts.Assign.(*ast.AssignStmt); ok && as.Tok == token.DEFINE && len(as.Lhs) == 1 {
							if id, ok := as.Lhs[0].(*ast.Ident); ok && id.Name != "_" {
								id.Name += "Q"
								n++
							}
						}
					}
					if id, ok := node.(*ast.Ident); ok {
						if obj := p.TypesInfo.Defs[id]; obj != nil {
							ren(id, obj)
						} else if obj := p.TypesInfo.Uses[id]; obj != nil {
							ren(id, obj)
						}
					}
					return true
				})
			}
			ast.Inspect(f, func(node ast.Node) bool {
				switch mode {
				case "add-flip":
					if be, ok := node.(*ast.BinaryExpr); ok && be.Op == token.ADD {
						if tv, ok := p.TypesInfo.Types[be]; ok {
							if bt, isB := tv.Type.Underlying().(*types.Basic); isB && bt.Info()&types.IsNumeric != 0 && tv.Value == nil {
								be.X, be.Y = be.Y, be.X
								n++
							}
						}
					}
				case "incdec":
					if blk, ok := node.(*ast.BlockStmt); ok {
						for k, st := range blk.List {
							if id, ok := st.(*ast.IncDecStmt); ok {
								tok := token.ADD_ASSIGN
								if id.Tok == token.DEC {
									tok = token.SUB_ASSIGN
								}
								blk.List[k] = &ast.AssignStmt{Lhs: []ast.Expr{id.X}, Tok: tok, Rhs: []ast.Expr{&ast.BasicLit{Kind: token.INT, Value: "1"}}}
								n++
							}
						}
					}
				case "switch-if":
					// a small tagged switch (no init, no fallthrough, at most four clauses) becomes an if chain
					if blk, ok := node.(*ast.BlockStmt); ok {
						for k, st := range blk.List {
							sw, ok := st.(*ast.SwitchStmt)
							if !ok || sw.Init != nil || sw.Tag == nil || len(sw.Body.List) > 4 || len(sw.Body.List) == 0 {
								continue
							}
							if _, isCall := sw.Tag.(*ast.CallExpr); isCall {
								continue // evaluate the tag once only
							}
							okSw := true
							var chain, last *ast.IfStmt
							var deflt *ast.BlockStmt
							for _, cl := range sw.Body.List {
								cc := cl.(*ast.CaseClause)
								for _, b := range cc.Body {
									if br, ok := b.(*ast.BranchStmt); ok && (br.Tok == token.FALLTHROUGH || br.Tok == token.BREAK) {
										okSw = false
									}
									ast.Inspect(b, func(m ast.Node) bool {
										if br, ok := m.(*ast.BranchStmt); ok && br.Tok == token.BREAK && br.Label == nil {
											okSw = false
										}
										return true
									})
								}
								if cc.List == nil {
									deflt = &ast.BlockStmt{List: cc.Body}
									continue
								}
								var cond ast.Expr
								for _, e := range cc.List {
									eq := &ast.BinaryExpr{X: sw.Tag, Op: token.EQL, Y: e}
									if cond == nil {
										cond = eq
									} else {
										cond = &ast.BinaryExpr{X: cond, Op: token.LOR, Y: eq}
									}
								}
								is := &ast.IfStmt{Cond: cond, Body: &ast.BlockStmt{List: cc.Body}}
								if chain == nil {
									chain = is
								} else {
									last.Else = is
								}
								last = is
							}
							if !okSw || chain == nil {
								continue
							}
							// the default clause must be last in source order for the chain to be equivalent
							if deflt != nil {
								if sw.Body.List[len(sw.Body.List)-1].(*ast.CaseClause).List != nil {
									continue
								}
								last.Else = deflt
							}
							blk.List[k] = chain
							n++
						}
					}
				case "rangeint":
					// for i := 0; i < N; i++ { body }  ->  for i := range N { body }   (the modernisation `go fix`
					// offers since Go 1.22), when the body does not assign to i and N is a constant or an
					// identifier / selector that the body does not assign to
					if blk, ok := node.(*ast.BlockStmt); ok {
						for k, st := range blk.List {
							fs, ok := st.(*ast.ForStmt)
							if !ok || fs.Init == nil || fs.Cond == nil || fs.Post == nil {
								continue
							}
							as, ok := fs.Init.(*ast.AssignStmt)
							if !ok || as.Tok != token.DEFINE || len(as.Lhs) != 1 || len(as.Rhs) != 1 {
								continue
							}
							iv, ok := as.Lhs[0].(*ast.Ident)
							if !ok {
								continue
							}
							if lit, ok := as.Rhs[0].(*ast.BasicLit); !ok || lit.Value != "0" {
								continue
							}
							cond, ok := fs.Cond.(*ast.BinaryExpr)
							if !ok || cond.Op != token.LSS {
								continue
							}
							if cid, ok := cond.X.(*ast.Ident); !ok || cid.Name != iv.Name {
								continue
							}
							inc, ok := fs.Post.(*ast.IncDecStmt)
							if !ok || inc.Tok != token.INC {
								continue
							}
							if pid, ok := inc.X.(*ast.Ident); !ok || pid.Name != iv.Name {
								continue
							}
							// the bound: a constant, identifier or selector; type int (range over other integer types changes i's type)
							switch cond.Y.(type) {
							case *ast.BasicLit, *ast.Ident, *ast.SelectorExpr:
							default:
								continue
							}
							if tv, ok := p.TypesInfo.Types[cond.Y]; !ok || tv.Type == nil {
								continue
							} else if bt, isB := tv.Type.Underlying().(*types.Basic); !isB || (bt.Kind() != types.Int && bt.Kind() != types.UntypedInt) {
								continue
							}
							if obj := p.TypesInfo.Defs[iv]; obj == nil {
								continue
							} else if bt, isB := obj.Type().Underlying().(*types.Basic); !isB || bt.Kind() != types.Int {
								continue
							}
							bound := types.ExprString(cond.Y)
							assigned := false
							ast.Inspect(fs.Body, func(m ast.Node) bool {
								switch t := m.(type) {
								case *ast.AssignStmt:
									for _, l := range t.Lhs {
										if ls := types.ExprString(l); ls == iv.Name || ls == bound {
											assigned = true
										}
									}
								case *ast.IncDecStmt:
									if ls := types.ExprString(t.X); ls == iv.Name || ls == bound {
										assigned = true
									}
								case *ast.UnaryExpr:
									if t.Op == token.AND {
										if ls := types.ExprString(t.X); ls == iv.Name {
											assigned = true
										}
									}
								}
								return true
							})
							if assigned {
								continue
							}
							used := false
							ast.Inspect(fs.Body, func(m ast.Node) bool {
								if id, ok := m.(*ast.Ident); ok && id.Name == iv.Name {
									used = true
								}
								return true
							})
							if used {
								blk.List[k] = &ast.RangeStmt{Key: iv, Tok: token.DEFINE, X: cond.Y, Body: fs.Body}
							} else {
								blk.List[k] = &ast.RangeStmt{X: cond.Y, Body: fs.Body}
							}
							n++
						}
					}
				case "minmax":
					// x := A; if B < x { x = B }   ->   x := min(A, B)     (and the > / max form)
					if blk, ok := node.(*ast.BlockStmt); ok {
						for k := 0; k+1 < len(blk.List); k++ {
							as, ok := blk.List[k].(*ast.AssignStmt)
							if !ok || len(as.Lhs) != 1 || len(as.Rhs) != 1 || (as.Tok != token.DEFINE && as.Tok != token.ASSIGN) {
								continue
							}
							xv, ok := as.Lhs[0].(*ast.Ident)
							if !ok {
								continue
							}
							is, ok := blk.List[k+1].(*ast.IfStmt)
							if !ok || is.Init != nil || is.Else != nil || len(is.Body.List) != 1 {
								continue
							}
							cond, ok := is.Cond.(*ast.BinaryExpr)
							if !ok {
								continue
							}
							inner, ok := is.Body.List[0].(*ast.AssignStmt)
							if !ok || inner.Tok != token.ASSIGN || len(inner.Lhs) != 1 || len(inner.Rhs) != 1 || types.ExprString(inner.Lhs[0]) != xv.Name {
								continue
							}
							b := types.ExprString(inner.Rhs[0])
							l, r := types.ExprString(cond.X), types.ExprString(cond.Y)
							fn := ""
							switch {
							case cond.Op == token.LSS && l == b && r == xv.Name, cond.Op == token.GTR && l == xv.Name && r == b:
								fn = "min"
							case cond.Op == token.GTR && l == b && r == xv.Name, cond.Op == token.LSS && l == xv.Name && r == b:
								fn = "max"
							default:
								continue
							}
							// both operands must have the same (integer or float) type for the builtin
							ta, tb := p.TypesInfo.TypeOf(as.Rhs[0]), p.TypesInfo.TypeOf(inner.Rhs[0])
							if ta == nil || tb == nil || !types.Identical(ta, tb) {
								continue
							}
							if _, isCall := inner.Rhs[0].(*ast.CallExpr); isCall {
								continue
							}
							// a package-level min / max would shadow the builtin
							if p.Types.Scope().Lookup(fn) != nil {
								continue
							}
							as.Rhs[0] = &ast.CallExpr{Fun: ast.NewIdent(fn), Args: []ast.Expr{as.Rhs[0], inner.Rhs[0]}}
							blk.List = append(blk.List[:k+1], blk.List[k+2:]...)
							n++
						}
					}
				case "guard":
					// a trailing `if c { A }` becomes a guard clause: `if !(c) { return }; A` at the end of a
					// function without results, `if !(c) { continue }; A` at the end of a loop body
					tail := func(list []ast.Stmt, exit ast.Stmt) ([]ast.Stmt, bool) {
						if len(list) == 0 {
							return list, false
						}
						is, ok := list[len(list)-1].(*ast.IfStmt)
						if !ok || is.Init != nil || is.Else != nil || len(is.Body.List) == 0 {
							return list, false
						}
						// declarations inside A would collide with the enclosing scope only if names repeat: skip bodies that declare
						declares := false
						for _, st := range is.Body.List {
							if as, ok := st.(*ast.AssignStmt); ok && as.Tok == token.DEFINE {
								declares = true
							}
							if _, ok := st.(*ast.DeclStmt); ok {
								declares = true
							}
						}
						if declares {
							return list, false
						}
						g := &ast.IfStmt{Cond: &ast.UnaryExpr{Op: token.NOT, X: &ast.ParenExpr{X: is.Cond}}, Body: &ast.BlockStmt{List: []ast.Stmt{exit}}}
						out := append(append([]ast.Stmt{}, list[:len(list)-1]...), g)
						out = append(out, is.Body.List...)
						return out, true
					}
					switch t := node.(type) {
					case *ast.FuncDecl:
						if t.Body != nil && (t.Type.Results == nil || len(t.Type.Results.List) == 0) {
							if l, ok := tail(t.Body.List, &ast.ReturnStmt{}); ok {
								t.Body.List = l
								n++
							}
						}
					case *ast.ForStmt:
						if l, ok := tail(t.Body.List, &ast.BranchStmt{Tok: token.CONTINUE}); ok {
							t.Body.List = l
							n++
						}
					case *ast.RangeStmt:
						if l, ok := tail(t.Body.List, &ast.BranchStmt{Tok: token.CONTINUE}); ok {
							t.Body.List = l
							n++
						}
					}
				case "if-switch":
					// if a {A} else if b {B} else {C}  ->  switch { case a: A; case b: B; default: C }
					if blk, ok := node.(*ast.BlockStmt); ok {
						for k, st := range blk.List {
							is, ok := st.(*ast.IfStmt)
							if !ok || is.Init != nil || is.Else == nil {
								continue
							}
							var clauses []ast.Stmt
							cur := is
							okChain := true
							for {
								if cur.Init != nil {
									okChain = false
									break
								}
								// a `break` inside would now leave the switch instead of an enclosing loop
								ast.Inspect(cur.Body, func(m ast.Node) bool {
									if br, ok := m.(*ast.BranchStmt); ok && br.Tok == token.BREAK && br.Label == nil {
										okChain = false
									}
									return true
								})
								clauses = append(clauses, &ast.CaseClause{List: []ast.Expr{cur.Cond}, Body: cur.Body.List})
								if cur.Else == nil {
									break
								}
								if next, ok := cur.Else.(*ast.IfStmt); ok {
									cur = next
									continue
								}
								eb := cur.Else.(*ast.BlockStmt)
								ast.Inspect(eb, func(m ast.Node) bool {
									if br, ok := m.(*ast.BranchStmt); ok && br.Tok == token.BREAK && br.Label == nil {
										okChain = false
									}
									return true
								})
								clauses = append(clauses, &ast.CaseClause{Body: eb.List})
								break
							}
							if !okChain || len(clauses) < 3 {
								continue
							}
							blk.List[k] = &ast.SwitchStmt{Body: &ast.BlockStmt{List: clauses}}
							n++
						}
					}
				case "drop-else":
					// if c { ...; return } else { B }  ->  if c { ...; return }; B   (golint's "drop this else")
					if blk, ok := node.(*ast.BlockStmt); ok {
						for k := 0; k < len(blk.List); k++ {
							is, ok := blk.List[k].(*ast.IfStmt)
							if !ok || is.Else == nil || len(is.Body.List) == 0 {
								continue
							}
							eb, ok := is.Else.(*ast.BlockStmt)
							if !ok {
								continue
							}
							leaves := false
							switch t := is.Body.List[len(is.Body.List)-1].(type) {
							case *ast.ReturnStmt:
								leaves = true
							case *ast.BranchStmt:
								leaves = t.Tok == token.CONTINUE || t.Tok == token.BREAK
							}
							if !leaves || is.Init != nil {
								continue
							}
							declares := false
							for _, st := range eb.List {
								if as, ok := st.(*ast.AssignStmt); ok && as.Tok == token.DEFINE {
									declares = true
								}
								if _, ok := st.(*ast.DeclStmt); ok {
									declares = true
								}
							}
							if declares {
								continue
							}
							is.Else = nil
							rest := append([]ast.Stmt{}, blk.List[k+1:]...)
							blk.List = append(append(blk.List[:k+1], eb.List...), rest...)
							n++
						}
					}
				case "expand-assign":
					// x += y  ->  x = x + y   (and -=, *=, |=, &=) when x is an identifier or selector without calls
					if as, ok := node.(*ast.AssignStmt); ok && len(as.Lhs) == 1 && len(as.Rhs) == 1 {
						var op token.Token
						switch as.Tok {
						case token.ADD_ASSIGN:
							op = token.ADD
						case token.SUB_ASSIGN:
							op = token.SUB
						case token.MUL_ASSIGN:
							op = token.MUL
						case token.OR_ASSIGN:
							op = token.OR
						case token.AND_ASSIGN:
							op = token.AND
						}
						pure := true
						ast.Inspect(as.Lhs[0], func(m ast.Node) bool {
							switch m.(type) {
							case *ast.CallExpr, *ast.IndexExpr:
								pure = false
							}
							return true
						})
						if op != token.ILLEGAL && pure {
							as.Rhs[0] = &ast.BinaryExpr{X: as.Lhs[0], Op: op, Y: &ast.ParenExpr{X: as.Rhs[0]}}
							as.Tok = token.ASSIGN
							n++
						}
					}
				case "parens":
					// clarifying parentheses around nested binary operands: a%b%c -> (a%b)%c, a+b*c -> a+(b*c)
					if be, ok := node.(*ast.BinaryExpr); ok {
						if _, ok := be.X.(*ast.BinaryExpr); ok {
							be.X = &ast.ParenExpr{X: be.X}
							n++
						}
						if _, ok := be.Y.(*ast.BinaryExpr); ok {
							be.Y = &ast.ParenExpr{X: be.Y}
							n++
						}
					}
				case "var-decl":
					// x := v  ->  var x = v   in statement lists (single variable, not in a for / if / switch header)
					if blk, ok := node.(*ast.BlockStmt); ok {
						for k, st := range blk.List {
							as, ok := st.(*ast.AssignStmt)
							if !ok || as.Tok != token.DEFINE || len(as.Lhs) != 1 || len(as.Rhs) != 1 {
								continue
							}
							id, ok := as.Lhs[0].(*ast.Ident)
							if !ok || id.Name == "_" {
								continue
							}
							// an untyped constant would keep its default type either way; nil has no type for var x = nil
							if tv, ok := p.TypesInfo.Types[as.Rhs[0]]; ok && tv.IsNil() {
								continue
							}
							blk.List[k] = &ast.DeclStmt{Decl: &ast.GenDecl{Tok: token.VAR, Specs: []ast.Spec{&ast.ValueSpec{Names: []*ast.Ident{id}, Values: []ast.Expr{as.Rhs[0]}}}}}
							n++
						}
					}
				case "demorgan":
					// the condition of an if statement: a && b -> !(!a || !b), a || b -> !(!a && !b)
					if is, ok := node.(*ast.IfStmt); ok {
						if be, ok := is.Cond.(*ast.BinaryExpr); ok && (be.Op == token.LAND || be.Op == token.LOR) {
							op := token.LOR
							if be.Op == token.LOR {
								op = token.LAND
							}
							not := func(e ast.Expr) ast.Expr { return &ast.UnaryExpr{Op: token.NOT, X: &ast.ParenExpr{X: e}} }
							is.Cond = not(&ast.BinaryExpr{X: not(be.X), Op: op, Y: not(be.Y)})
							n++
						}
					}
				case "neg-if":
					if is, ok := node.(*ast.IfStmt); ok && is.Else != nil && is.Init == nil {
						if eb, ok := is.Else.(*ast.BlockStmt); ok {
							is.Cond = &ast.UnaryExpr{Op: token.NOT, X: &ast.ParenExpr{X: is.Cond}}
							is.Body, is.Else = eb, is.Body
							n++
						}
					}
				}
				return true
			})
			if n == 0 {
				continue
			}
			var buf bytes.Buffer
			if err := format.Node(&buf, p.Fset, f); err != nil {
				panic(err)
			}
			for _, e := range extra {
				buf.WriteString(e)
			}
			if err := os.WriteFile(name, buf.Bytes(), 0o644); err != nil {
				panic(err)
			}
			changed += n
		}
	}
	fmt.Println("rewritten nodes:", changed)
}
