// Command rewrite applies one behaviour-preserving source transformation to every
// non-test Go file of a copy of the repository (robustness testing of the checks: a
// transformed tree must get the same verdicts as the original).
//
//	rewrite <repo-copy> <mode>
//
// modes: add-flip   exchange the operands of every numeric a + b
//
//	incdec     i++ / i-- become i += 1 / i -= 1
//	neg-if     if c { A } else { B } becomes if !(c) { B } else { A } (no else-if chains)
//	demorgan   !(a) introduced: a && b becomes !(!(a) || !(b)) for boolean conditions of if statements
package main

import (
	"bytes"
	"fmt"
	"go/ast"
	"go/format"
	"go/token"
	"go/types"
	"os"
	"strings"

	"golang.org/x/tools/go/packages"
)

func main() {
	dir, mode := os.Args[1], os.Args[2]
	cfg := &packages.Config{Mode: packages.NeedName | packages.NeedFiles | packages.NeedCompiledGoFiles | packages.NeedSyntax | packages.NeedTypes | packages.NeedTypesInfo | packages.NeedImports | packages.NeedDeps, Dir: dir, Env: os.Environ()}
	pkgs, err := packages.Load(cfg, "./amd/...", "./nvidia/...")
	if err != nil {
		panic(err)
	}
	changed := 0
	for _, p := range pkgs {
		for i, f := range p.Syntax {
			name := p.CompiledGoFiles[i]
			if strings.HasSuffix(name, "_test.go") || !strings.HasPrefix(name, dir) {
				continue
			}
			n := 0
			ast.Inspect(f, func(node ast.Node) bool {
				switch mode {
				case "add-flip":
					if be, ok := node.(*ast.BinaryExpr); ok && be.Op == token.ADD {
						if tv, ok := p.TypesInfo.Types[be]; ok {
							if bt, isB := tv.Type.Underlying().(*types.Basic); isB && bt.Info()&types.IsNumeric != 0 && tv.Value == nil {
								be.X, be.Y = be.Y, be.X
								n++
							}
						}
					}
				case "incdec":
					if blk, ok := node.(*ast.BlockStmt); ok {
						for k, st := range blk.List {
							if id, ok := st.(*ast.IncDecStmt); ok {
								tok := token.ADD_ASSIGN
								if id.Tok == token.DEC {
									tok = token.SUB_ASSIGN
								}
								blk.List[k] = &ast.AssignStmt{Lhs: []ast.Expr{id.X}, Tok: tok, Rhs: []ast.Expr{&ast.BasicLit{Kind: token.INT, Value: "1"}}}
								n++
							}
						}
					}
				case "neg-if":
					if is, ok := node.(*ast.IfStmt); ok && is.Else != nil && is.Init == nil {
						if eb, ok := is.Else.(*ast.BlockStmt); ok {
							is.Cond = &ast.UnaryExpr{Op: token.NOT, X: &ast.ParenExpr{X: is.Cond}}
							is.Body, is.Else = eb, is.Body
							n++
						}
					}
				}
				return true
			})
			if n == 0 {
				continue
			}
			var buf bytes.Buffer
			if err := format.Node(&buf, p.Fset, f); err != nil {
				panic(err)
			}
			if err := os.WriteFile(name, buf.Bytes(), 0o644); err != nil {
				panic(err)
			}
			changed += n
		}
	}
	fmt.Println("rewritten nodes:", changed)
}
