#!/usr/bin/env python3
"""Writes /verif/MANIFEST.json from the table below (one entry per claimed property)."""
import json, os, sys
HERE = os.path.dirname(os.path.dirname(os.path.abspath(__file__)))

CLAIMED = {
 "C15": dict(
   text="Structural clauses of the reorder buffer decided for every path of every handler: back-pressure discipline around each Send, FIFO-only list operations with retirement from the head, capacity guard with a >= predicate that is re-evaluated before every insertion of a cycle, provenance of every copied field and of the response's RspTo/Dst/Data, flush/restart clearing and gating. Every control port the shader array exports reaches the command processor in both timing platforms, so a GPU flush reaches every reorder buffer. Chosen because ordering, exactly-once and field-faithfulness of this 330-line component are visible in the shape of its code on all paths, which no finite set of request streams covers.",
   ref="4/C15", technique="SSA path analysis with inlining and nil/bool fact pruning (SEND-DISCIPLINE), dominance cuts (GUARD), value provenance (FIELDS), who-may-call on container/list operations",
   note="akita port/list semantics trusted; timing and per-cycle widths not decided"),
 "C16": dict(
   text="Structural clauses of the address translator on all paths: back-pressure discipline on five send stages, physical-address expression shape and field provenance of translated requests and of responses (RspTo/Dst from the entry selected by the lower level's RspTo), in-flight record/pop pairing, coalescing guarded by page and PID equality, flush gating.",
   ref="4/C16", technique="SSA path analysis (SEND-DISCIPLINE), value provenance (FIELDS), dominance cuts (GUARD), PAIR on field writes",
   note="akita port semantics and the translation service trusted; address values not computed, only the expression shape"),
 "C18": dict(
   text="RDMA clauses only: exactly-once forwarding and reply routing are decided structurally (SEND-DISCIPLINE on six handlers incl. the control port, a frozen wiring table output port/input port/transaction table/address mapper checked against each Send's provenance, reply matching on forwarded IDs, drain acknowledgement guarded by both tables empty). For the anchored benchmarks one necessary condition of that equality is decided: a per-GPU share obtained by dividing by the GPU count comes with a treatment of the remainder (eight known findings). Equality of final data across GPU counts is otherwise a runtime quantity and is not decided.",
   ref="4/C18", technique="SSA path analysis (SEND-DISCIPLINE), value provenance against a wiring table, dominance cuts (GUARD)",
   note="the RDMA engine's clauses and the benchmarks' split arithmetic; data equality across GPU sets and the driver's distribution arithmetic are not decided"),
}

CLAIMED.update({
 "C17": dict(
   text="Structural clauses of the banked DRAM model on all paths: one response per request under back-pressure (CanSend/Send discipline, pop after success, storage access once across retries), per-byte mask guard of masked writes (the request buffer or any contiguous slice of it reaches storage only when the mask is nil), conservation of requests in the dispatch and drain loops, per-bank arrival order (no direct pipeline entry while the delay queue may hold earlier requests), provenance of response fields and storage accesses. Requests of one bank leave the pending list in arrival order (a pending request blocks its bank for the pass), the delay queue releases in arrival order, one pipeline lane per bank and bank selection covering the whole access (two known findings). Read-after-write values and latency independence are runtime quantities and are not decided.",
   ref="4/C17", technique="SSA path analysis (SEND-DISCIPLINE, must-pass, exactly-one-sink per loop iteration), dominance cuts (GUARD), value provenance (FIELDS)",
   note="akita pipelining/Storage trusted; bank selection arithmetic and latencies not decided; one recorded known finding (row-hit fast path)"),
 "C19": dict(
   text="Structural clauses of page migration on all paths: back-pressure discipline and the retry-list idiom on every PMC send stage, field/ID threading of the chunk pipeline (cursor steps = transfer unit, chunk count = page size / unit), completion built once at counter 0, one migration at a time, the driver's drain-shootdown-migrate-restart stage order (each stage only at its predecessor's counter 0), request fields old PAddr -> newly allocated page. Byte equality of page contents is not decided.",
   ref="4/C19", technique="SSA path analysis (SEND-DISCIPLINE, retry-list rule, must-pass), dominance cuts on counter==0 (GUARD), value provenance (FIELDS)",
   note="page contents and page-size divisibility not decided; acknowledgement counters are raised exactly where their requests are queued, and a counter raised from two middlewares only where it was found zero; the driver's receive handlers report progress after every message they consume; 13 unchecked Sends of the CP control middleware and the acknowledgement counter shared between the flush path and the migration handshake (2 sites) recorded as known findings; one defect (driver sleeping on the second shootdown acknowledgement) repaired by a fix: commit"),
})

CLAIMED.update({
 "C20": dict(
   text="Structural clauses of the trace-driven NVIDIA pipeline, one table row per hierarchy level (sub-core, SM, GPU, driver): back-pressure discipline at dispatch and report sites, completion propagation (decrement, ==0 test, finished counter, unit returned to the free list by the ID in the message), zero-work completion at every load site, conservation at load and dispatch sites; the trace-line parser consumes every token for at most one field (symbolic cursor intervals pairwise disjoint) and agrees with the tracer's print format transcribed as an oracle (scan verb per column incl. the 0x-prefixed base address, register names R0..R255, the line-number column switched by the header, 64-bit strides and deltas, an arm per address form); every reported counter is written; sibling constructors create the same maps. Instruction counts as numbers are not decided.",
   ref="4/C20", technique="SSA path analysis (SEND-DISCIPLINE), dominance cuts on counter==0 (GUARD), value provenance (PAIR/FIELDS), table of sibling levels",
   note="instruction counts as numbers not decided; three zero-work defects found by R20.3 and six parser / counter defects (memory address parsed as 0, registers above R31, line-number column, SM instruction counter, NewDriver map, 32-bit deltas) repaired by fix: commits; the transcribed trace format is part of the trusted base; one known finding (address form 0 has no arm)"),
})

CLAIMED.update({
 "C09": dict(
   text="Structural clauses of work-group dispatch on all paths: the three placement algorithms checked as siblings of one interface (valid location only after a successful reservation on the named CU for the reserved work-group; counter and slot updated on the success path, the slot cleared and the per-source counter being those of the source the work-group was taken from; FreeResources/HasNext shapes), SEND-DISCIPLINE and PAIR on the map request, completion accounting per ID with the message consumed, launch response only under kernelCompleted() whose three conjuncts are verified, idle-dispatcher selection in the CP, reserve/commit/clear/free symmetry of CUResourceImpl (mask sets, status constants, slot counts, offset granularities, unit counts; the capacities each timing platform registers with the command processor equal those its compute units are built with; the LDS demand is the dispatch packet's size, static plus dynamic, on both the reserve and the free side). Non-overlap of masks for every demand sequence is value level and not decided.",
   ref="4/C09", technique="SIBLINGS over implementations of one interface, SSA path analysis (SEND-DISCIPLINE, must-pass), dominance cuts with phi-fact pruning (GUARD), value provenance, constant tables",
   note="resourceMask internals, gridbuilder and the CU-side completion (C14) not covered here; one defect (LDS demand ignored dynamic local memory) found and repaired by a fix: commit"),
 "C11": dict(
   text="Structural clauses of host-device copies: the range-overlap predicate decided on all 75 weak orderings of its arguments (order-domain abstract interpretation of its comparison skeleton), completion only on an empty outstanding list / finished request collection, six splitting loops (chunk = min(remaining, address-dependent unit remainder), one step for all cursors, slice and size = chunk), piece addressing via the page found for the address, SEND-DISCIPLINE of DMA/CP/driver send stages, clone FIELDS, flush-before-copy ordering and CP gates, dirty marks kept per process (launches mark and copies consult the buffers of every context with the command's PID), a copy command enters the running state only for a non-zero size, and every response handler that removes a request from a command can retire it. Every copy middleware tests for dirty buffers or never meets a cache (known finding for the direct-storage path on the timing platform); storage errors on a copy path are not dropped; the device-to-device kernel gets grid and bound in one unit. Byte equality for all offsets/lengths is not decided.",
   ref="4/C11", technique="order-domain abstract interpretation (ORDER-DOMAIN), SSA loop-shape analysis of splitting loops, SSA path analysis (SEND-DISCIPLINE, must-pass), dominance cuts (GUARD), value provenance (FIELDS)",
   note="arithmetic over runtime values and cache flush effectiveness not decided; 3 unchecked Sends of the CP middleware recorded as known findings; four defects (memRangeOverlap containment, zero-length copies never completing, copies never completing when a flush of another GPU returned last - the cause of the repository's hanging mccl suite -, dirty tracking per context instead of per process) repaired by fix: commits"),
})

CLAIMED.update({
 "C06": dict(
   text="Lane non-interference argued per vector handler of both ALUs on SSA, for all EXEC masks and all paths: lane loops are 0..63; every lane write, storage access and LDS access uses the loop's lane and is dominated by the CFG edge on which that lane's EXEC bit (from state.EXEC()) is set, with polarity checked; every operand read in a lane loop reads the loop's lane; VCC/EXEC/SCC are used through lane i's own bit only (lane-mask accumulators whose updates touch only the updating lane's bit are recognised); no loop-carried value reaches a lane write; scalar destinations are written outside the loops; scalar handlers do not read EXEC; the lane index is used only as a selector (accessor lane, mask bit position, per-lane array index), never in the arithmetic that produces the written value, and an isolated lane bit is compared with zero only. Relative to the InstEmuState contract (C07).",
   ref="4/C06", technique="SSA dataflow: natural lane loops, dominance of CFG edges (guard with polarity), backward data slices for loop-carried values, lane-mask accumulator recognition, documented-exception table",
   note="what value a lane computes is not decided; helpers that receive the lane as a parameter are judged at call sites; v_readfirstlane is the only exception (both ALUs); three defects (v_div_scale_f64 SDst, v_cvt_f16_f32 fraction computed from the lane index, v_div_fmas_f64 VCC bit compared with 1) found and repaired by fix: commits"),
})

CLAIMED.update({
 "C04": dict(
   text="Totality and determinism of decoding decided from the tables and the shape of amd/insts: the format table (mask/encoding consistency, overlap and specificity order, opcode fields) which makes format matching independent of map order and sort stability; the decode table of about 1000 rows evaluated from constant expressions (duplicates, field widths, VOP3b routing, dispatch coverage); every getOperand call site against the computed set of defined operand codes using an interval analysis of the code argument; per-format bounds of every buffer access; size accounting incl. the single literal dword shared by two literal operands and an opcode-specific size step for every mnemonic that carries a 32-bit constant; immutability of the decode tables on the decode path; register families of getOperand covered completely; the single-bit helper; a nil test before a lazily created decode table is dereferenced; destination fields that cannot hold constants; the key of every decode cache covering all arguments that select the bytes read (address and process); error handling at the three callers; every field extraction of the decode functions and the format table compared with the microcode formats of the ISA manuals transcribed as (format, field) -> (dword, bit range) tables; agreement of the mnemonics of the two encodings of each vector instruction (VOP2/VOP1/VOPC row versus its VOP3 row); the bit-extraction helpers decided by bit provenance for every constant range used. Every format decoder applies the table's 64-bit widths to the operands it fills; each table row agrees with its own mnemonic on operand widths and, for the VOP3b carry family, operand presence; the VOP3b rows are exactly the ISA's list; the complete field list of each format is covered by the decoder's extractions; scalar register operands built from raw fields stay inside s0..s101; the destination register file follows the mnemonic (decided per opcode on the SSA form); FLAT, SMEM and SOPP opcode numbers and the operands of the DS instructions agree with transcribed tables. The inverse property decode(encode(d)) = d is value level and not decided.",
   ref="4/C04", technique="constant-table evaluation from the type-checked syntax (TABLE), interval analysis on SSA (INTERVAL), dominance cuts (GUARD), decision-table evaluation of getOperand's switch",
   note="opcode numbers versus the ISA manuals are not compared (only the two encodings of one instruction with each other); the transcribed field layouts are part of the trusted base; ten genuine defects (dropped getOperand errors, unguarded buf[:4], literal dword counted twice in SOP2/SOPC, ttmp11 rejected, GDS bit taken from bit 4, s_setreg_imm32_b32 sized 4 bytes, constants accepted as destinations, v_madak/v_madmk with a literal sized 12 bytes, emulator decode cache keyed by address only, SDWA S0 flag read from the wrong bit) found and repaired by fix: commits"),
})

CLAIMED.update({
 "C07": dict(
   text="Aliasing shapes of the register stores decided statically in all five accessors of both modes: half-register merges keep exactly the other half (mask == ^(0xffffffff << shift)) and use the shift of their LO/HI context, half reads use the same shift, the (register kind, count) coverage of the accessors is evaluated as decision tables and compared as siblings against the set of special registers the decoder produces, vector-register strides of emulation equal those of the timing register file and its builder constants, the multi-register width rule is uniform, the decoder's register count 0 behaves as count 1 in every accessor (effect traces compared), WriteOperand hands exactly operand-width bytes to the register file, the lane stride of a vector register file is at least the bytes one lane owns, staging buffers hold the widest operand the decoder produces, and register release clears only the wavefront's own ranges. Read-after-write equality over all sequences is value level and not decided.",
   ref="4/C07", technique="SSA pattern rules with dominance context (GUARD), decision-table evaluation of sibling accessors (SIBLINGS), constant agreement (TABLE), value provenance",
   note="register index bounds and allocation offsets not decided; five defects (VCCHI mask, missing EXEC halves, eight emulator accessors ignoring register count 0, MI300A register files striding lanes by 1024 bytes under 2048-byte allocations, 32-byte read-back buffer) found and repaired by fix: commits"),
})

CLAIMED.update({
 "C13": dict(
   text="Kernel loading decided against an external oracle: the published amd_kernel_code_t and kernel_descriptor_t layouts are transcribed as offset/width tables and every metadata read of both parsers and of the header sniffer is compared with its row (offset, width, slice width, flag bit, signature constants); parser bounds versus what callers establish; precedence of the V5 descriptor over header sniffing; 256 bytes stripped only under a positive sniff; kernel bytes are exactly the named symbol's range of .text; the descriptor is selected by name+.kd, size 64, inside .rodata; symbols are selected by exact name only; the entry offset stored with a code object is relative to the instructions handed out.",
   ref="4/C13", technique="constant-table comparison against a transcribed specification (TABLE), dominance cuts (GUARD), function-local value provenance",
   note="debug/elf trusted; the register-count override arithmetic and the V5 policy overrides are not decided; the transcription of the two layouts is part of the trusted base (cross-checked against a shipped gfx942 descriptor); three offset defects of parseV5KernelDescriptor recorded as known findings"),
})

CLAIMED.update({
 "C03": dict(
   text="ISA rules that are uniform across opcodes and visible in the code shape, for both ALUs and all paths: dispatch integrity of every opcode switch (one handler per case, panicking default, listed functional no-ops only), ALL-OR-NONE of condition-code writes in every handler, shift-amount intervals in every handler of a shift instruction (handlers tied to instruction names through decode table, dispatch switch and callee), destination-only operand writes and PC/EXEC writers restricted by instruction name, carry predicates of carry-in instructions evaluated in 64 bits, every float-to-integer conversion of an operand value reached only after range tests on the floating-point value (and no clamp that the operand's type makes dead), no result variable left at its zero value by an open if/else-if chain; every compare handler decided exactly on the ordering domain {less, equal, greater, unordered} against the truth table its mnemonic prescribes, with kind / signedness / width of the compared values; LDS handlers address ADDR plus their (scaled) offset field; bitwise handlers decided exactly by per-bit truth tables; operand selection of integer min/max, polarity of cndmask/cselect/cmov and of conditional branches with their target formula, operand order of sub/subrev and shift/shiftrev pairs; sources read before destinations are written; bits 32..63 of a raw operand never decide the result of a 32-bit instruction; SCC of signed add/sub from the signed overflow condition; IEEE bit patterns never used as numbers; float min / max decided on ranks and NaN operands; the SDWA select helpers decided bit by bit (origin of every result bit for every select constant and dst_unused mode) and SDWA-encoded instructions never executed as plain ones; VOP3 abs / neg modifiers applied to every data source of the instructions that accept them; every decoded field of an instruction consulted by execution or exempt with a reason; no dispatch case without a decode row; no ALU helper ignoring a parameter. One handler serves only mnemonics of one operand format and never both an IEEE instruction and its legacy form; inline float constants have the operand's width in both register stores; no carry test compares against a wrapping unsigned difference (interval evaluation); lane masks are accumulated from zero; the unsigned add/sub family contains no signed ordering test; float-to-int conversions are dominated by a NaN test and clamp to the type's bound; a handler that copies its single source serves a move; SOPK immediates are widened as their type says (bit provenance of the handler's expressions). In 32-bit handlers the upper half of a raw 64-bit source is inert; carry addends and the sources of the unsigned add/sub family are reduced to 32 bits; the median-of-three helpers return the median on every weak ordering. Bit-exact arithmetic conformance needs an executable ISA transcription and is not decided.",
   ref="4/C03", technique="constant-table evaluation (decode table and dispatch switches), must-pass path analysis (ALL-OR-NONE), interval analysis on SSA (INTERVAL), who-may-write, finite-domain evaluation of comparison skeletons (ORDER-DOMAIN), bit-provenance evaluation of field helpers (BITPROV), value provenance of addresses",
   note="arithmetic, rounding, saturation and comparison semantics of individual opcodes are not decided; defect families found and repaired by fix: commits: one-sided SCC, unmasked shifts, v_cvt_i32_f32 saturation tested after conversion, v_div_scale_f64 default result and denormal classification, compare handlers (lg/nlg NaN, u32 width, CDNA3 ge_f32_e64), ds_read_b64 offset, 20 handlers of 32-bit instructions reading 64 operand bits, s_addc_u32 carry, s_cmpk compares, float min/max with a NaN operand, SDWA dst_unused and SDWA add, SDWA silently ignored by 36 VOP2 handlers, v_cndmask_b32_e64 / v_div_scale ignoring abs and neg, clamp and GDS bits dropped, CDNA3 v_div_scale_f64 filed under the wrong opcode; known findings pinned by upstream tests: GCN3 s_add_i32 SCC, v_div_fixup_f64 using bit patterns as numbers (14 sites)"),
})

CLAIMED.update({
 "C12": dict(
   text="Structural conditions whose absence is the lost wake-up, the data race or the reordering, on all paths of amd/driver: capacity >= 1 of every channel targeted by a non-blocking send, the subscribe / test / wait / re-test shape of the drain loop, a guarded-by lockset analysis for six field/mutex pairs, no mixed atomic/plain access, FIFO ownership of the command list (tail append, head removal, index 0), one command at a time per queue, a frozen inventory of goroutines, multi-way selects, engine runs and signal receivers, the runAsync / runEngine hand-off (a run request recorded while the engine is flagged as running is honoured before the flag is cleared), no host-destination write and no trace-task start after the call that releases the waiting threads, thread-shared fields discovered from the thread entry points (application API versus Tick / Handle) and required to be accessed under one common mutex (locks held at all call sites of a helper count), and every device address a launch reads copied earlier on the launching queue. Liveness under all interleavings is a model-checking question and is not decided.",
   ref="4/C12", technique="lockset dataflow on the CFG (guarded-by), dominance cuts (GUARD), who-may-write / shape rules on SSA, inventory of concurrency constructs",
   note="memory effects between commands are not decided; seven defects (unbuffered signal channel, plain read of nextPID, unlocked findContext, run request lost while the engine leaves Run, trace task started after the command completed, Context.buffers and the code-object cache unguarded) found and repaired by fix: commits; two known findings (Driver.devices unguarded; a second queue's launch not ordered after the code-object copy)"),
})

CLAIMED.update({
 "C10": dict(
   text="Structural clauses of device memory management on all paths: a lockset analysis of the allocator (every field access under the embedded mutex; helpers reached only from lock-holding call sites), pairing of every page-table write with the allocator's vAddr mirror plus who-may-write the page table, physical addresses taken only from the device memory state and returned to it only as the freed page's own address, no container mutated while ranged in the driver packages, page-granular cursor and size arithmetic, Free looping over exactly the page count recorded at allocation with a one-page stride, the key shape of the allocator's page maps (process + virtual address), every page's DeviceID derived from its own physical address, release of the previous physical page when a virtual page is re-homed, and the buddy allocator's parent merge bit flipped for every block taken from a free list. The allocator's device ranges start where the platforms' do (known finding). Invariants over allocate/free/remap histories are state-machine properties and are not decided.",
   ref="4/C10", technique="lockset dataflow with call-site propagation (guarded-by), PAIR and who-may-write on SSA, syntactic range-mutation rule, value provenance of cursor arithmetic",
   note="disjointness of live physical pages over histories and the buddy allocator's internal state are not decided; five defects (stale mirror entry on free, mutate-while-ranging in removeFreedBuffers, Free releasing only the first page, remapped pages recorded on a unified device, buddy merge bit) repaired by fix: commits; three known findings (mirror keyed without the PID; old physical page leaked by Remap and by migration)"),
})

CLAIMED.update({
 "C05": dict(
   text="Structural sources of host-dependent order and values in all code that runs inside a simulation (driver, emulator, decoder, kernels, protocol, sampling, every timing component, timing configuration, NVIDIA model): every range over a map is classified as order-insensitive or carries a one-line exception that is re-validated where possible (InstType.ID has no reader), host-dependent value sources are enumerated against an exception table whose sinks are checked to have no reader, goroutines / multi-way selects and unstable sorts are inventoried, and whoever wakes the simulation goroutine returns to the application only with the queue found empty (the engine never runs while the single application thread is still enqueueing). A workload that seeds the global generator runs with an effective seed (go.mod), and the application thread resumes only behind a wait for the simulation goroutine (two known findings). Equality of whole runs across host schedules is a runtime quantity and is not decided.",
   ref="4/C05", technique="type-resolved syntactic classification of map ranges, source/sink enumeration with who-may-read, inventory of concurrency constructs and sorts",
   note="akita's engines are outside /repo; the parallel engine and float summation order inside kernels are not decided; one defect (map-order iteration in page migration) found and repaired by a fix: commit"),
})

CLAIMED.update({
 "C14": dict(
   text="Structural clauses of execution ordering in the timing compute unit and the emulator's barrier resolution, on all paths: completion only with both outstanding-access counters at zero, the scalar/LGKM and vector/VM comparison pairs of the wait count, increment sites and caller-propagated last-piece guarding of every counter decrement, accepted-state sets of the barrier predicates evaluated as decision tables and compared with {at barrier, completed}, barrier release only under those predicates and, at every caller (s_barrier and s_endpgm), purging exactly the released wavefronts from the waiting list and making the release visible to the rest of the pass, work-group completion message only when all other wavefronts completed with resources released only after a successful send. The issue-trace ordering under all latencies is a schedule property and is not decided.",
   ref="4/C14", technique="dominance cuts with phi-fact pruning (GUARD), decision-table evaluation of sibling predicates (SIBLINGS), who-may-write, SSA path analysis (SEND-DISCIPLINE)",
   note="scoreboard hazards, SIMM16 field ranges and memory-latency schedules are not decided; two defects (completed wavefronts not counted as arrived at a barrier, both modes; waiting list not purged when an ending wavefront releases the barrier; released wavefront evaluated again in the same pass) found and repaired by fix: commits"),
})

CLAIMED.update({
 "C02": dict(
   text="Eight necessary conditions of functional transparency of timing mode, decided structurally: architectural state of timing wavefronts is changed only through the shared emulation ALU (who-may-call with a frozen allow-list; ALU obtained only from emu.NewALU or the injected factory); the initial-register code of the two modes is reduced to comparable summaries (enable flag, bytes reserved, value; lane-id registers incl. the V5 packed form); the SMEM and FLAT opcode sets of both ALUs and of the timing units agree, including, for sub-dword loads, the number of memory bytes that reach the register and their sign/zero extension in the timing write-back versus the emulation handler; cache flushes precede copies that touch dirty buffers; the timing-only outstanding-access counters are decremented only through the last-piece test of a memory return (in the function or all its callers); the pieces of a split scalar load land in consecutive registers; the kernel-launch path reaches a flush of the non-coherent per-CU L1 caches; a platform that installs the CDNA3 ALU also configures its decoder for CDNA3 and the timing compute unit installs the decoder it is given. In both modes the ALU observes the executing instruction's PC (the emulator advances it after the ALU ran; PC-derived results agree between the two ALUs). Equality of final memory and PC traces is a runtime quantity and is not decided.",
   ref="4/C02", technique="who-may-call on SSA, summaries of sibling functions from the type-checked syntax (SIBLINGS), opcode-set comparison of dispatch switches (TABLE), must-pass path analysis",
   note="coalescer and write-back value correctness, scoreboard hazards, caches and DRAM are not decided; five defects (s_load_dwordx16, flat_load_sbyte and flat_load_ushort write-back, V5 packed ids in timing, MI300A timing platform decoding with GCN3 rules) repaired by fix: commits; two SGPR-reservation divergences and the missing L1 flush between kernels (bitonicsort fails in timing mode) recorded as known findings"),
})

CLAIMED.update({
 "C08": dict(
   text="Structural clauses of the grid partition: one ceil(grid/wg) formula (same dimension, recognised form) at every counting site of the grid builder, the driver and both register initialisations; partial sizes min(grid - id*wg, wg) per dimension, x-fastest enumeration, spawning bounded by the current sizes; wavefront membership keyed on in-group id / 64 with lane bit id % 64 and first flat id quotient*64, the in-group id formula and its inverse decomposition in both modes' lane-id initialisation; the multi-GPU filter's flattening and half-open cumulative ranges; plus R02.2 (identical initial registers in both modes). That every work-item is executed exactly once for all sizes is arithmetic and is not proved.",
   ref="4/C08", technique="value provenance of the partition formulas compared across sites (SIBLINGS), dominance cuts (GUARD), syntactic loop-bound rules",
   note="only the shapes of the formulas and their mutual consistency are decided; one defect (wavefront formation in partial non-power-of-two work-groups) found and repaired by a fix: commit, after which rule R08.3 was added as its structural necessary condition"),
})

# sentences added to the level text of a property in later rounds (eighth / ninth round)
ADDENDA = {
 "C05": " What the program reads back does not depend on host scheduling: no write into a command's host destination after the command was dequeued (R05.8, shared with C12); ALU factories return an ALU of their own per compute unit (R05.9).",
 "C07": " Byte-valued register reads return storage of their own (R07.7).",
 "C09": " A location returned by the placement algorithm is stored in the pending slot or sent on every path (R09.8); a message is retrieved from a port only where it is going to be served (R09.9).",
 "C11": " No command is dequeued by the function that starts it once a request was attached to it (R11.12).",
 "C08": " The placement algorithms hand every work-group out once (R08.5, the sibling check of R09.1).",
 "C13": " Lookups use the resolved kernel name (R13.6).",
 "C14": " The barrier release reaches every wavefront of the group's own list (R14.7).",
 "C15": " Fields stored by the request path are reset by the flush path (R15.7).",
 "C16": " Fields stored by the request path are reset by the flush path (R16.6); a finished lookup is removed from the table by identity (R16.7).",
 "C20": " Every message passed to Send is a fresh object or one that arrived through a port (R20.13).",
 "C02": " The FLAT offset is widened through int32 at every 64-bit use in the coalescer (R02.10), and the lane info of a load is matched to a transaction register by register (R02.11); the shared ALU's LDS is bound to the executing wave right before each run of the LDS unit (R02.12).",
 "C03": " Every widening of the signed FLAT/GLOBAL offset to 64 bits passes through int32 in both ALUs (R03.37; DS-only functions exempt). The input-modifier helpers are interpreted over a sign domain for the four ABS/NEG combinations (R03.38); SCC of 32-bit scalar shifts is decided on the 32-bit result (R03.39); the bit-level instructions (logic, moves, shifts, bit-field extract / insert, sign extension, conditional move, align) are decided exactly, bit for bit, over the bit-provenance domain (R03.40); loads hand the destination 4 bytes per register (R03.41); products wider than their factors are formed in 64 bits (R03.42).",
 "C04": " Packed VOP3P rows decode no ABS/OMOD (R04.25); a decoder that stores the raw NEG/ABS field derives the per-source flags and the printer arm of that format reads them (R04.26); the literal size step is judged with decoder helpers expanded at their call sites (R04.5); every operand constructor returns storage of that call (R04.27); an operand is widened under the width column of that operand (R04.28); FLAT and SMEM operand counts follow the mnemonic of every table row (R04.29, R04.30).",
 "C06": " A vector handler reads an operand once outside its lane loop only if the decoder of every format reaching the handler builds that operand as a non-register constant (R06.hoist).",
 "C10": " The buddy block serving a multi-page request has the order established by the search loop (1 << order) < numPages * pageSize (or c + bits.Len(uint(numPages-1))) and the free-list level is derived from it (R10.12); Distribute's pieces tile the buffer (R10.13).",
 "C12": " The engine hand-off (re-run request, claim of engineRunning) is decided only after the tick was scheduled, helpers expanded (R12.13); nothing is traced for a command after CommandQueue.Dequeue in the functions that retire it (R12.14); host data is encoded / decoded when a command runs, never in a function reachable from an exported Enqueue* (R12.15); a consumed response counts as progress (R12.16).",
 "C18": " The splitting loops of the driver's copy paths take min(remaining, bytes left in the page) per piece (R18.8, the check of R11.3): pages of distributed buffers and unified devices are not physically consecutive; the driver counts the work-groups it distributes with ceil(grid/wg) (R18.9).",
 "C19": " The driver's one-page gate is closed only after a successful Send and reopened on every path of the acknowledgement handler (R19.8); every chunk request is routed by the address it carries (R19.9).",
}

PENDING = {}

NOT_APPLICABLE = {
 "C01": "equality of kernel results with host references over all workloads, sizes and configurations is a value-level runtime quantity; no structural clause is a necessary condition whose violation is the violation (DESIGN 4/C01)",
}

def main():
    props = [json.loads(l)["id"] for l in open(os.path.join(HERE, "properties.jsonl"))]
    checks = []
    for pid in props:
        if pid not in CLAIMED:
            continue
        m = CLAIMED[pid]
        checks.append({
            "property_id": pid,
            "quick_cmd": f"./check {pid} quick",
            "thorough_cmd": f"./check {pid} thorough",
            "evidence_file": f"/verif/evidence/{pid}.json",
            "replay_cmd_template": "cat {path}",
            "engine": "mgpucheck",
            "level_claimed": {"category": "other", "text": m["text"] + ADDENDA.get(pid, ""), "design_ref": "DESIGN.md section " + m["ref"]},
            "level_note": m["note"],
            "technique": m["technique"],
        })
    na = []
    for pid in props:
        if pid in CLAIMED:
            continue
        reason = NOT_APPLICABLE.get(pid) or PENDING.get(pid) or "no check registered yet in this round: the static rules designed for it (DESIGN section 4) are not implemented; nothing is claimed"
        na.append({"property_id": pid, "reason": reason})
    man = {
        "version": 1,
        "setup_cmd": "./check --setup",
        "hooks": {"guard": "verif", "enable": "none: nothing is instrumented, the checker only reads source", "baseline_off_cmd": json.load(open("/root/.vp/BASELINE.json"))["cmd"], "source_commits": [], "add_only": True},
        "engines": [{"name": "mgpucheck", "path": "/verif/cmd/mgpucheck", "serves_properties": sorted(CLAIMED), "kind_free_text": "repository-specific static analyser on go/packages + go/ssa (x/tools v0.50.0, go1.26.8): inlined path-sensitive flow graph, dominance cuts, value provenance, constant tables"}],
        "checks": checks,
        "not_applicable": na,
        "notes": "All checks are static: they load /repo's working tree, never execute simulator code. Findings are keyed by rule+construct (never line numbers); known_findings.json lists recorded genuine defects and fixed ones.",
    }
    json.dump(man, open(os.path.join(HERE, "MANIFEST.json"), "w"), indent=1)
    print("MANIFEST.json:", len(checks), "checks,", len(na), "not_applicable")

main()
