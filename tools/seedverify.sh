#!/bin/bash
# seedverify.sh <Cxx> [seed-dir]  — confirm a sub-agent's seeded change in a scratch worktree of /repo:
# demo passes on the clean tree, the patch applies and builds, the demo fails with it, and report
# what the property's quick check says about the patched tree. Keeps the result in /verif/seeded/<id>/.
set -u
id=$1; src=${2:-/tmp/seed/$id/SEED}; name=${3:-$id}
here=$(cd "$(dirname "$0")/.." && pwd)
export PATH=/opt/veriftools/go1.26.8/bin:$PATH GOTOOLCHAIN=local GOFLAGS=-mod=mod GOPROXY=off GOSUMDB=off
unset GOWORK
wt=/tmp/seedverify/$name
rm -rf "$wt"; git -C /repo worktree prune; mkdir -p /tmp/seedverify
git -C /repo worktree add --detach "$wt" HEAD -q || exit 3
cleanup() { git -C /repo worktree remove --force "$wt" 2>/dev/null; }
trap cleanup EXIT
cmd=$(python3 -c "import json,sys; print(json.load(open('$src/meta.json'))['demo_cmd'])")
cmd=${cmd//SEED\//$src/}
cd "$wt"
echo "== demo on clean tree: $cmd"
if ( eval "$cmd" ) > /tmp/seedverify/$name.clean.log 2>&1; then clean=pass; else clean=FAIL; fi
echo "   clean: $clean"
if ! git apply "$src/patch.diff"; then echo "   patch does not apply"; exit 3; fi
if go build ./... > /tmp/seedverify/$name.build.log 2>&1; then build=ok; else build=FAIL; fi
echo "   build with patch: $build"
if ( eval "$cmd" ) > /tmp/seedverify/$name.patched.log 2>&1; then patched=pass; else patched=fail; fi
echo "   demo with patch: $patched"
# remove demo files so that the checker sees only the source change
git status --short | grep '^??' | awk '{print $2}' | xargs -r rm -rf
out=$(cd "$here" && VERIF_REPO="$wt" VERIF_OUT=/tmp/seedverify/$name.out ./check "$id" quick 2>&1); rc=$?
echo "   check $id quick on patched tree: exit $rc"
echo "$out" | grep '^  ' | head -5 | cut -c1-300
mkdir -p "$here/seeded/$name"
cp "$src/patch.diff" "$here/seeded/$name/"; rm -rf "$here/seeded/$name/demo"; cp -r "$src/demo" "$here/seeded/$name/demo"
python3 - "$src/meta.json" "$here/seeded/$name/meta.json" "$clean" "$build" "$patched" "$rc" <<'PY'
import json,sys
m=json.load(open(sys.argv[1]))
m["confirmed"]={"demo_on_clean_tree":sys.argv[3],"build_with_patch":sys.argv[4],"demo_with_patch":sys.argv[5],"check_exit_on_patched_tree":int(sys.argv[6]),
 "how":"tools/seedverify.sh: scratch git worktree of /repo HEAD under /tmp/seedverify, demo_cmd run before and after `git apply patch.diff`, `go build ./...`, then ./check <id> quick with VERIF_REPO pointing at the patched worktree; worktree removed afterwards"}
json.dump(m,open(sys.argv[2],"w"),indent=1)
PY
echo "$out" | grep '^  ' > "$here/seeded/$name/check_findings.txt"
