import json,sys,glob,os
a,b=sys.argv[1],sys.argv[2]
def rules(d):
    out={}
    for f in sorted(glob.glob(d+'/C*.json')):
        e=json.load(open(f))
        def find(o):
            if isinstance(o,dict):
                if 'rule' in o and 'instances' in o: out[(os.path.basename(f)[:3],o['rule'])]=(o['instances'],o.get('obligations'),o.get('discharged'))
                for v in o.values(): find(v)
            elif isinstance(o,list):
                for v in o: find(v)
        find(e)
    return out
ra,rb=rules(a),rules(b)
for k in sorted(set(ra)|set(rb)):
    if ra.get(k)!=rb.get(k): print(k, ra.get(k), rb.get(k))
