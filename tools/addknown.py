#!/usr/bin/env python3
"""addknown.py <replay.json> <rule-prefix> <what>: append the violations of a replay file whose rule starts with the prefix to known_findings.json (used only by hand after triage; checks never write this file)."""
import json, sys, os
HERE = os.path.dirname(os.path.dirname(os.path.abspath(__file__)))
rep = json.load(open(sys.argv[1])); prefix = sys.argv[2]; what = sys.argv[3]
kf = json.load(open(os.path.join(HERE, "known_findings.json")))
keys = {(k["rule"], k["pkg"], k["func"], k["detail"]) for k in kf["findings"]}
n = 0
for v in rep["violations"]:
    if not v["rule"].startswith(prefix) or v["kind"] != "violation":
        continue
    key = (v["rule"], v["pkg"], v["func"], v["detail"])
    if key in keys:
        continue
    kf["findings"].append({"property": rep["property"], "rule": v["rule"], "pkg": v["pkg"], "func": v["func"], "detail": v["detail"], "status": "known", "what": what})
    n += 1
json.dump(kf, open(os.path.join(HERE, "known_findings.json"), "w"), indent=1)
print("added", n)
